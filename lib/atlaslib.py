"""Drivers for the Atlas-mode properties (C16, C17, C20, and the Atlas part of C08): the unmodified CLI against lib/fakeatlas.py,
and the library entry points (DownloadClusterLogs / DeleteClusterLogs) through the in-process overlay driver."""
import gzip, json, os, shutil, subprocess, tempfile, time
import common, fakeatlas as fa, streamlib as sl


def payload_for(pool, i, kinds=("cmd", "oth", "cmd", "txt", "cmd"), variant=1, crlf=False, final_nl=True):
    lines = sl.concretise(pool, list(kinds), variant, 40 + i)
    return sl.file_bytes(lines, final_nl, crlf)


def run_atlas_cli(b, sc, workdir, flags=(), key_by="env", start=None, end=None, out_name="out.log", extra_args=(), prepare=None,
                  timeout=180, strace=False, encrypt=False, extra_env=None, tmp_missing=False):
    """One real `anonymongo redact --atlasProjectId ... --atlasClusterName ...` run against a fresh fake endpoint."""
    d = tempfile.mkdtemp(prefix="atl-", dir=workdir)
    tmp = os.path.join(d, "tmp")
    if not tmp_missing:
        os.mkdir(tmp)
    f = fa.FakeAtlas(sc, tmpdir=tmp)
    try:
        # the temporary directory as the environment may spell it: plain, with a trailing slash (the macOS default), a doubled slash, a '.' segment
        spell = [tmp, tmp + "/", d + "//tmp", d + "/./tmp"][sum(sc.project.encode()) % 4]
        env = dict(f.env(), TMPDIR=spell)
        args = ["redact", "--atlasProjectId", sc.project, "--atlasClusterName", sc.cluster, "-o", os.path.join(d, out_name)]
        if key_by == "env":
            env.update(ATLAS_PUBLIC_KEY=sc.public, ATLAS_PRIVATE_KEY=sc.private)
        elif key_by == "flags":
            args += ["--atlasPublicKey", sc.public, "--atlasPrivateKey", sc.private]
        elif key_by == "flagseq":
            args += ["--atlasPublicKey=" + sc.public, "--atlasPrivateKey=" + sc.private]          # the one-word form of a flag
        elif key_by == "mixed":
            args += ["--atlasPublicKey", sc.public]
            env.update(ATLAS_PRIVATE_KEY=sc.private)
        elif key_by == "mixed2":
            args += ["--atlasPrivateKey", sc.private]
            env.update(ATLAS_PUBLIC_KEY=sc.public)
        if start is not None:
            args += ["--atlasLogStartDate", str(start)]
        if end is not None:
            args += ["--atlasLogEndDate", str(end)]
        if encrypt:
            args += ["--encrypt", "-q", os.path.join(d, "enc.key")]
        args += list(flags) + list(extra_args)
        if prepare:
            prepare(d)
        e = dict(os.environ)
        for k in ("ATLAS_PUBLIC_KEY", "ATLAS_PRIVATE_KEY", "HTTPS_PROXY", "HTTP_PROXY", "https_proxy", "http_proxy", "SSL_CERT_FILE", "ANONYMONGO_VERSION", "NO_PROXY", "no_proxy"):
            e.pop(k, None)
        e.update(env)
        if extra_env:
            e.update(extra_env)
        cmd = [b.cli] + args
        st = os.path.join(d, "strace.log")
        if strace:
            cmd = ["strace", "-f", "-qq", "-o", st, "-e", "trace=openat,unlink,unlinkat,exit_group"] + cmd
        t0 = time.time()
        try:
            p = subprocess.run(cmd, cwd=d, env=e, stdin=subprocess.DEVNULL, capture_output=True, timeout=timeout)
        except subprocess.TimeoutExpired:
            raise common.Infra("Atlas CLI run timed out")
        t1 = time.time()
        outs = {}
        for n in sorted(os.listdir(d)):
            if n.startswith(out_name + "."):
                suf = n[len(out_name) + 1:]
                pth = os.path.join(d, n)
                if suf.isdigit() and os.path.isfile(pth):
                    outs[int(suf)] = open(pth, "rb").read()
        tmp_left = []
        for n in (sorted(x for x in os.listdir(tmp) if "stale0" not in x) if os.path.isdir(tmp) else []):
            pth = os.path.join(tmp, n)
            tmp_left.append((n, os.path.getsize(pth) if os.path.isfile(pth) else -1))
        other_files = {}
        for n in sorted(os.listdir(d)):
            pth = os.path.join(d, n)
            if os.path.isfile(pth) and n != "strace.log":
                other_files[n] = open(pth, "rb").read()
        time.sleep(0.01)
        return {"rc": p.returncode, "stdout": p.stdout, "stderr": p.stderr, "requests": list(f.log), "connects": list(f.connects),
                "tmp_left": tmp_left, "outs": outs, "files": other_files, "args": args, "t0": t0, "t1": t1,
                "strace": open(st, errors="replace").read() if strace and os.path.exists(st) else None, "env_keys": sorted(env)}
    finally:
        f.close()
        shutil.rmtree(d, ignore_errors=True)


def run_atlas_lib(b, sc, workdir, start=1700000000, end=1700600000, delete=True, timeout_ms=20000, tmp_missing=False):
    """DownloadClusterLogs (+ DeleteClusterLogs) in-process against the fake endpoint over plain HTTP."""
    d = tempfile.mkdtemp(prefix="atlib-", dir=workdir)
    tmp = os.path.join(d, "tmp")
    if not tmp_missing:
        os.mkdir(tmp)
    f = fa.FakeAtlas(sc, tmpdir=tmp, tls=False)
    try:
        a = common.run_inproc(b, [{"op": "atlas_download", "args": {"base_url": f.base_url(), "public": sc.public, "private": sc.private,
                                                                     "project": sc.project, "cluster": sc.cluster, "start": start, "end": end,
                                                                     "tmpdir": tmp, "delete": delete, "timeout_ms": timeout_ms}}])[0]
        res = a.get("result") or {}
        res["panic"] = a.get("panic")
        res["requests"] = list(f.log)
        res["tmp_left"] = sorted(os.listdir(tmp)) if os.path.isdir(tmp) else []
        return res
    finally:
        f.close()
        shutil.rmtree(d, ignore_errors=True)


def project_requests(reqs):
    """The request log as the model sees it: (target, authed) pairs; target = 'cluster' or the host name."""
    out = []
    for r in reqs:
        tgt = "cluster" if r.get("kind") == "cluster" else r.get("host") if r.get("kind") == "logs" else "other:" + r.get("path", "")
        out.append((tgt, bool(r.get("authorization"))))
    return out
