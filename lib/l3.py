"""Replay engine for the line-level (L3) properties: TLC-generated abstract cases -> concrete log lines ->
the real CLI -> parsed output aligned with the input -> the specification's prediction (drift) and the
property predicate supplied by the check (verdict)."""
import base64, hashlib, importlib, json, multiprocessing, os, random, re, subprocess, sys, tempfile, time
import common, jsonx

EAGER_NS = "dbZn.collZn"
PSEUDO_RE = None  # set per cfg (depends on the replacement text)

PLACEHOLDERS = {"d": "1970-01-01T00:00:00.000Z", "o": "0" * 24, "b": "AAAAAAAAAAAAAAAAAAA=",
                "e": "redacted@redacted.com", "i": "255.255.255.255:65535"}


# ------------------------------------------------------------------ flag sets
class Cfg:
    """One flag set, as a model record (TLA+) and as real CLI flags."""

    def __init__(self, name, num=False, bool=False, ips=False, ns=False, eager=False, re=None, replacement=None,
                 encrypt=False, match_keys=("zzsecretA",), eager_ns=None, nodrift=False):
        self.name, self.num, self.bool, self.ips, self.ns, self.eager = name, num, bool, ips, ns, eager
        self.eager_ns, self.nodrift = eager_ns, nodrift
        self.re, self.replacement, self.encrypt = re, replacement, encrypt
        self.match_keys = tuple(match_keys)

    def tla(self):
        b = lambda x: "TRUE" if x else "FALSE"
        return ("[num |-> %s, bool |-> %s, ips |-> %s, ns |-> %s, eagerOn |-> %s, re |-> %s, anch |-> %s, matchKeys |-> {%s}]" %
                (b(self.num), b(self.bool), b(self.ips), b(self.ns), b(self.eager), b(self.re is not None),
                 b(self.re in ("anch", "anch1")), ",".join('"%s"' % k for k in self.match_keys) if self.re else ""))

    def regexp(self):
        return {None: None, "unanch": "zzsecret", "anch": "^(zzsecretA|zzsecretB|zzsecret[0-9]+|oid|binary|numberLong|eq|ne|set|match|expr|lookup|group)$", "anch1": "^zzsecretA$",
                "ci": "(?i)ZZSECRET"}[self.re]

    def flags(self):
        f = []
        if self.num: f.append("-n")
        if self.bool: f.append("-b")
        if self.ips: f.append("-i")
        if self.ns: f.append("-w")
        if self.eager:
            for pre in (self.eager_ns if isinstance(self.eager_ns, (list, tuple)) else [self.eager_ns or EAGER_NS]):
                f += ["-f", pre]
        if self.re: f += ["-z", self.regexp()]
        if self.replacement is not None: f += ["-r", self.replacement]
        return f

    def repl(self):
        return "REDACTED" if self.replacement is None else self.replacement

    def pseudo_re(self):
        r = re.escape(self.repl()) + r"_[0-9a-f]{16}"
        return re.compile(r"^%s(\.%s)*$" % (r, r))

    def pseudo_split(self, text):
        """The component pseudonyms of a (dotted) pseudonym - the replacement text itself may contain dots."""
        return re.findall(re.escape(self.repl()) + r"_[0-9a-f]{16}", text)

    def desc(self):
        return {"name": self.name, "flags": self.flags() + (["--encrypt"] if self.encrypt else [])}


def cfgs_tla(cfgs):
    return "[" + ", ".join("%s |-> %s" % (c.name, c.tla()) for c in cfgs) + "]"


# ------------------------------------------------------------------ concretiser
STYLES = ["ascii", "unicode", "escapes", "control", "dollar_inside", "digits", "long", "jsonlike", "b64like", "spaces", "pseudolike", "percent"]
CLASH_STYLES = STYLES + ["classclash", "classclash", "nearmail"]      # C05 only: the same text in several lexical classes (tokens are then not unique per leaf)
# a few texts that occur in several lexical classes within one run (a plain string spelled like an ObjectId, a date, a payload)
CLASH = {"oid": ["65f1a2b3c4d5e6f708192a3b", "5e0000000000000000c1a5b0"], "date": ["2024-02-29T12:34:56.789Z", "1999-12-31T23:59:59.000Z"],
         "b64": ["c2VjcmV0IGJ5dGVzIQ==", "AAECAwQFBgcICQoLDA0ODw=="]}
EXOTIC_KEYS = ("uf1", "uf2", "uf3", "envkey")
KEY_STYLES = ["%s\\", "C:\\Users\\%s", "%s\"q\"", "%sé漢\U0001d4b3", "%s\u2028x", "%s<&>", "%s sp ace", "%s\tt", "%s\x01\x7f", "%s/sl", "%s"]


def _plain(idn, style, rng):
    tok = "Zq%dx" % idn
    if style == "ascii":
        return tok, tok
    if style == "unicode":
        return tok + "-é漢\U0001d4b3ß", tok
    if style == "escapes":
        # (also: a literal backslash followed by what looks like a \\uXXXX escape of '<', '>' and '&')
        return 'a"b\\c/d\x01\t<>&  \\u003cb\\u003e\\u0026 ' + tok + '\\"', tok
    if style == "control":
        return "\x01\x07\x0b\x7f\U000e0001" + tok + "\x1f", tok
    if style == "shared_prefix":      # near-duplicates: a long common prefix, the difference at the very end
        return "customer-records/2024/export-batch-000042/part-" + tok, tok
    if style == "nul_tail":           # near-duplicates that differ only in trailing U+0000 / blank padding (C10: distinct plaintexts)
        t = "acct-42" + ["", "\x00", "\x00\x00", " ", "\x00 ", "\x00" * 9][idn % 6]
        return t, t
    if style == "dollar_inside":
        return tok + "$inside$", tok
    if style == "digits":
        d = "98765%09d" % idn
        return d, d
    if style == "long":
        return tok + "L" * rng.choice([100, 1000, 12000]), tok
    if style == "jsonlike":
        return '{"k":"%s","n":1}' % tok, tok
    if style == "b64like":
        return tok + "AAAA==", tok
    if style == "spaces":
        return "  " + tok + " with spaces  ", tok
    if style == "pseudolike":         # spelled like a pseudonym of the default replacement text
        t = "REDACTED_%016x" % (idn * 2654435761 % (1 << 64))
        return t, t
    if style == "classclash":
        t = rng.choice(CLASH["oid"] + CLASH["date"] + CLASH["b64"])
        return t, t
    if style == "nearmail":
        # almost e-mail shaped: a letter outside ASCII that case folding maps onto one (long s, KELVIN SIGN), a blank, no domain dot is fine for neither
        return rng.choice(["Wa\u017f%s@example.de", "273\u212a%s@lab.example", "%s name@example.com", "%s@exa mple.com", "%s\u00e9@example.com"]) % tok, tok
    if style == "percent":
        return "100%% %s %d " + tok + " %!s(MISSING)", tok
    raise ValueError(style)


XJSON_PAYLOAD = {
    "$uuid": lambda i, r: "%08x-%04x-4%03x-%s%03x-%012x" % (r.getrandbits(32), r.getrandbits(16), r.getrandbits(12), r.choice("89ab"), r.getrandbits(12), i),
    "$numberLong": lambda i, r: r.choice(["%d", "-%d", "92233720368%07d"]) % i,
    "$numberInt": lambda i, r: "%d" % (i % 2147483647),
    "$numberDouble": lambda i, r: r.choice(["%d.5", "%d.0E-3", "-%de2"]) % i,
    "$numberDecimal": lambda i, r: r.choice(["%d.%d" % (i, i % 97), "%dE+6000" % i, "-%d.5E-6100" % i, "0.%d" % i]),
}


class Leaf:
    __slots__ = ("path", "cls", "lab", "m", "node", "token", "lit")

    def __init__(self, path, cls, lab, m, node, token, lit=None):
        self.path, self.cls, self.lab, self.m, self.node, self.token, self.lit = path, cls, lab, m, node, token, lit


KEYMAP_DEFAULT = {}
FN_KEYS = ("uf1", "ufs", "uf2", "uf3")
QUERY_SLOTS = ("query", "filter", "sort", "q", "u", "update", "updates", "deletes", "documents")


def fn_claimed(path):
    """C15: is an object key at this path (path = position of the object holding the key) one of the positions the
    statement names - keys of the query predicate, update specification, inserted documents, sort document and of
    $match / $sort stages?  (Keys introduced by $group / $project / $set ... are output-field names: not claimed.)"""
    if len(path) < 3 or path[0] != "attr" or path[1] not in HOLDERS_:
        return False
    slot = path[2]
    rest = path[3:]
    stage_keys = [p for p in rest if isinstance(p, str) and p.startswith("$")]
    if slot in ("query", "filter", "sort", "q", "deletes", "documents"):
        return not any(k in ("$expr",) for k in stage_keys)
    if slot in ("update", "u", "updates"):
        # operator form / replacement form; the pipeline form only under $match / $sort
        if any(isinstance(p, int) for p in rest[:2]) and slot != "updates":
            return bool(stage_keys) and stage_keys[0] in ("$match", "$sort")
        if slot == "updates":
            r2 = rest[1:]            # skip the statement index
            if r2 and r2[0] == "u" and len(r2) > 1 and isinstance(r2[1], int):
                sk = [p for p in r2[2:] if isinstance(p, str) and p.startswith("$")]
                return bool(sk) and sk[0] in ("$match", "$sort")
            return r2[:1] in (["q"], ["u"], ("q",), ("u",)) or (r2 and r2[0] in ("q", "u"))
        return True
    if slot == "pipeline":
        return bool(stage_keys) and stage_keys[0] in ("$match", "$sort") and "$expr" not in stage_keys
    return False


HOLDERS_ = ("command", "cmd", "originatingCommand")


class Concretiser:
    """Turns a Compact(line) tree into a concrete tree.  `variant` selects the contents of every literal;
    class, position and labels never change between variants (that is what C02 relies on)."""

    def __init__(self, seed, idx, variant, keymap=None, styles=None):
        self.rng = random.Random((seed * 1000003 + idx) * 31 + variant)
        self.variant = variant
        self.n = 0
        self.idx = idx
        self.leaves = []
        self.keymap = keymap or KEYMAP_DEFAULT
        self.styles = styles or STYLES
        self.nsrel = None
        self._keys = {}
        self._long_used = False
        self._nsn = None
        self._fam = None
        self._has_insert = True
        self.fn_style = False
        self.nsrel_by_variant = False
        self.ns_style = False
        self.exotic_keys = True

    def _id(self):
        self.n += 1
        return self.idx * 64 + self.n  # unique within a batch of cases as long as a case has < 64 leaves

    def leaf(self, code, path):
        cls, lab = code[0], code[1]
        m = len(code) > 2 and code[2] == "m"
        idn = self._id()
        v = self.variant
        rng = self.rng
        tok = None
        lit = None
        if cls == "lit":
            lit = code[-1]
            node = ('str', lit)
        elif cls in ("plain", "envstr"):
            if m:
                s = "zzsecret%d" % idn
                node, tok = ('str', s), s
            elif getattr(self, "_twin", None) and rng.random() < 0.6:
                node, tok = ('str', self._twin), self._twin
            elif v and path and path[-1] in XJSON_PAYLOAD and rng.random() < 0.6:
                # what really stands under these extended-JSON wrappers: a well-formed UUID, canonical number strings (also ones float64 cannot hold)
                s = XJSON_PAYLOAD[path[-1]](idn, rng)
                node, tok = ('str', s), s
            else:
                style = "ascii" if v == 0 else rng.choice(self.styles)
                if style == "long":          # one long literal per line keeps the line below the reader's 64 KiB limit
                    if self._long_used:
                        style = "unicode"
                    self._long_used = True
                s, tok = _plain(idn, style, rng)
                node = ('str', s)
        elif cls == "email":
            local = "zq%dx" % idn
            dom = ["canary-mail.example", "x.io", "sub.domain-%d.example.org" % idn][v % 3 if v else 0]
            tok = local
            if v and rng.random() < 0.5:
                # mixed case (addresses are case-preserving): the canary is the part that survives any case folding
                local, dom, tok = "Zq%dxA" % idn, dom.title().replace("Example", "EXAMPLE"), "q%dx" % idn
            elif v and rng.random() < 0.35:
                # e-mail SHAPED (the statement's word), as people really have them: consecutive / trailing dots in the local part (carrier
                # addresses), apostrophes, plus tags - all inside the WHATWG syntax the judge applies to the placeholder as well
                local = rng.choice(["zq%dx..doe", "zq%dx.", ".zq%dx", "o'zq%dx", "zq%dx+tag", "zq%dx_-.a"]) % idn
                tok = "zq%dx" % idn
            node = ('str', local + "@" + dom)
        elif cls == "empty":
            node = ('str', "")
        elif cls == "dollar" and self.fn_style and not m:
            okz = lab == "ref" and in_zone(path) and not (path[2] == "documents" and not self._has_insert)
            name = self.fn_family()[self.n % 4] if okz else "Ufn%dr" % self.idx
            # a field reached through an aggregation variable is a reference to that field as well
            s = ("$", "$", "$$ROOT.", "$", "$$CURRENT.", "$$this.", "$")[idn % 7 if v else 0] + name
            node, tok = ('str', s), name
        elif cls == "dollar":
            s = ("$zzsecret%d" % idn) if m else ("$zr%dx" % idn if v == 0 else rng.choice(["$zr%dx", "$zr%dx.sub", "$$zr%dx"]) % idn)
            node, tok = ('str', s), s.lstrip("$").split(".")[0]
        elif cls == "dollarop":
            node = ('str', "$add" if v == 0 else rng.choice(["$add", "$match", "$eq", "$cond"]))
        elif cls == "date":
            s = "20%02d-%02d-%02dT%02d:%02d:%02d.%03dZ" % (rng.randint(10, 39), rng.randint(1, 12), rng.randint(1, 28),
                                                            rng.randint(0, 23), rng.randint(0, 59), rng.randint(0, 59), idn % 1000)
            if v and rng.random() < 0.3:
                # other ISO-8601 spellings of the offset (extended and basic form)
                s = s[:-1] + ("+00:00", "+0100", "-03:30", "+0000", "-0800")[idn % 5]
            if v and getattr(self, "clash", False) and rng.random() < 0.15:
                s = rng.choice(CLASH["date"])
            node, tok = ('str', s), s
        elif cls == "oid":
            s = "%020x%04x" % (rng.getrandbits(80), idn % 65536)
            if v and getattr(self, "clash", False) and rng.random() < 0.15:
                s = rng.choice(CLASH["oid"])
            node, tok = ('str', s), s
        elif cls == "b64":
            raw = bytes(rng.getrandbits(8) for _ in range(12)) + idn.to_bytes(4, "big")      # a 16-byte UUID payload
            if v and rng.random() < 0.5:
                raw += bytes(rng.getrandbits(8) for _ in range(rng.randint(1, 40)))
            s = base64.b64encode(raw).decode()
            if v and getattr(self, "clash", False) and rng.random() < 0.15:
                s = rng.choice(CLASH["b64"])
            node, tok = ('str', s), s
        elif cls in ("nsname", "nseq", "nsprefix", "nsother", "nsother2", "nsotherdb") and self.ns_style:
            d, c_, od, oc = self.ns_names()
            key = path[-1] if path else ""
            if cls == "nsname":
                s = d if key in ("$db", "db") else c_
            elif cls == "nsother2":
                s = oc
            elif cls == "nsotherdb":
                s = od
            else:
                s = d + "." + c_
            node, tok = ('str', s), s
        elif cls == "nsname":
            # verb value / $db / collection: by key position (set by caller through path)
            key = path[-1] if path else ""
            if isinstance(key, int):
                key = "coll"
            s = self.ns_parts()[0] if key in ("$db", "db") else self.ns_parts()[1]
            node, tok = ('str', s), s
        elif cls in ("nseq", "nsprefix", "nsother"):
            self.nsrel = cls
            d, c_ = self.ns_parts()
            s = d + "." + c_
            node, tok = ('str', s), s
        elif cls == "ip":
            s = "203.0.113.%d:%d" % (idn % 250 + 1, 40000 + idn % 20000)
            if v and rng.random() < 0.5:
                # the client may be connected over IPv6 (bracketed, with a zone, IPv4-mapped)
                s = rng.choice(["[2001:db8::%x]:%d", "[fe80::%x%%eth0]:%d", "[::ffff:198.51.100.%d]:%d"]) % (idn % 250 + 1, 40000 + idn % 20000)
            node, tok = ('str', s), s
        elif cls == "plan":
            node = ('str', self.fn_plan() if self.fn_style else "IXSCAN { uf1: 1, uf2.sub: -1 }")
        elif cls == "num":
            if lab == "env":
                node = ('num', rng.choice(["7469113720208097282", "1E5", "-0.0", "1e400", "12345678901234567890123", "0.1000", "43", "-7", "2.50e-3",
                                            "-0", "-0e0", "0E+5", "1E+2", "10000000000000000000", "-9223372036854775809", "0.0"]) if v else "43")
            elif lab == "any":
                # numbers at positions the grammar does not derive (damaged statements, positions of a bulkWrite op ...): small, negative, fractional, huge
                s = ["-1", "%d" % (7000000 + idn), "2.5", "-%d" % (7000000 + idn), "0", "99999999999", "1e3", "-0"][idn % 8]
                node, tok = ('num', s), s
            else:
                s = "%d.%d5" % (7000000 + idn, rng.randint(0, 9)) if (v == 0 or rng.random() < 0.5) else rng.choice(["%d", "-%d", "%de2", "%d.0E-1"]) % (7000000 + idn)
                node, tok = ('num', s), s
        elif cls == "bool":
            node = ('bool', True if v == 0 else rng.random() < 0.7)
        elif cls == "null":
            node = ('null', None)
        else:
            raise ValueError("unknown leaf class %r" % (cls,))
        lf = Leaf(path, cls, lab, m, node, tok, lit)
        self.leaves.append(lf)
        return node

    def key_for(self, k):
        # one concrete spelling per abstract key and case (the same key must stay the same key)
        if k not in self._keys:
            self._keys[k] = self.rng.choice(KEY_STYLES) % k
            if k == "uf1" and self.rng.random() < 0.1:
                self._keys[k] = ""          # the empty string is a legal field name
        return self._keys[k]

    # ---- field-name redaction (C15): planted identifiers
    def fn_family(self):
        if self._fam is None:
            i, v = self.idx, self.variant
            fams = [["Zfn%da" % i, "Zfn%db" % i, "Zfn%dc" % i, "Zfn%dd" % i],
                    ["a", "ab", "abc", "b"],
                    ["IX", "SCAN", "IXSCAN", "X"],
                    ["deadbeef", "cafe01", "0123456789abcdef", "beef"],
                    ["Zfn%da.sub" % i, "a.b", "Zfn%da.Zfn%db" % (i, i), "b.a.b"],
                    ["abcdefghijklmnopqrst", "abcdefghij", "klmnopqrst", "Zfn%de" % i],
                    # dotted paths whose later components start with a digit but are names, not array positions
                    ["Zfn%da.3dModel%d" % (i, i), "Zfn%db.0a1b2c%d" % (i, i), "Zfn%dc.2ndLine" % i, "Zfn%dd.7" % i]]
            self._fam = fams[0] if v == 0 else fams[self.rng.randrange(len(fams))]
        return self._fam

    def fn_name(self, k, path):
        idx = FN_KEYS.index(k)
        if fn_claimed(path) and not (len(path) > 2 and path[2] == "documents" and not self._has_insert):
            return self.fn_family()[idx % 4]
        return "Ufn%d%s" % (self.idx, "klmn"[idx % 4])

    def fn_plan(self):
        n = self.fn_family()
        forms = ["IXSCAN { %s: 1 }" % n[0], "IXSCAN { %s: 1, %s: -1 }" % (n[0], n[1]),
                 "IXSCAN { %s: 1 }, IXSCAN { %s: 1, %s: 1 }" % (n[0], n[1], n[2]), "COLLSCAN", "IDHACK",
                 "IXSCAN  {  %s :  1 ,%s:-1}" % (n[0], n[3]), "SORT_MERGE IXSCAN { %s: \"2d\" }" % n[2]]
        return forms[1] if self.variant == 0 else self.rng.choice(forms)

    def ns_names(self):
        """Per-line planted names (C12): database, collection, a second database and collection; shapes by variant."""
        if self._nsn is None:
            i, v, rng = self.idx, self.variant, self.rng
            shapes = ["Clq%dz", "Clq%dz.part%dx", "system.Clq%dz", "Clq%dz-é漢", "Clq%dz.a.b", "Clq%dz_$x"]
            sh = shapes[0] if v == 0 else rng.choice(shapes)
            coll = sh % ((i,) * sh.count("%d"))
            if v > 0 and rng.random() < 0.15:
                coll = "$cmd"
            osh = "Otq%dz" if v == 0 else rng.choice(["Otq%dz", "Otq%dz.sub%dq", "system.buckets.Otq%dz", "77%d33", "Otq%dz.20%d"])
            db = "Dbq%dz" % i
            if v in (1, 2):
                # variants 1 and 2 of a case are consecutive lines of a batch: their databases are D and D_t (one name a proper prefix of
                # the other); every fifth D is an all-digit (tenant-id style) name
                db = ("70%d93" % i) if i % 5 == 0 else ("Dbq%dz" % i)
                if v == 2:
                    db += "_t"
            elif v > 0 and rng.random() < 0.2:
                db = "70%d93" % i              # tenant-id style: an all-digit database name
            if v > 0 and rng.random() < 0.15:
                coll = rng.choice(["66%d17", "Clq%dz.20%d", "ledger%d.%d"])
                coll = coll % ((i,) * coll.count("%d"))
            elif v > 0 and rng.random() < 0.12:
                # per-tenant / per-shard names that end in an id (16 hex digits, an ObjectId, a UUID without dashes)
                coll = "Clq%dz_%s" % (i, rng.choice(["%016x" % rng.getrandbits(64), "%024x" % rng.getrandbits(96), "%032x" % rng.getrandbits(128)]))
            self._nsn = (db, coll, "Odq%dz" % i, osh % ((i,) * osh.count("%d")))
        return self._nsn

    def ns_parts(self):
        rel = self.nsrel or self._nsrel_hint
        if self.nsrel_by_variant:
            rel = ("nseq", "nsprefix", "nsother")[self.variant % 3]
        if rel == "nsother":
            return "dbQx", "collQx"
        if rel == "nsprefix":
            return "dbZn", "collZnMore"
        return "dbZn", "collZn"

    def build(self, tree, path=()):
        if isinstance(tree, dict):
            if "o" in tree:
                kv = []
                for k, v in tree["o"]:
                    k2 = self.keymap.get(k, k)
                    if k2 == "ufv" and getattr(self, "vocab_words", None):
                        # a user field spelled like a word of the operator tables: another word for every case
                        k2 = self.vocab_words[(self.idx * 7 + self.variant) % len(self.vocab_words)]
                    if k2 == "findAndModify" and self.variant > 0 and self.rng.random() < 0.4:
                        k2 = "findandmodify"        # the legacy all-lower-case alias, logged as the client sent it
                    if self.fn_style and k2 in FN_KEYS:
                        k2 = self.fn_name(k2, path)
                    elif self.variant > 0 and k2 in EXOTIC_KEYS and self.exotic_keys:
                        k2 = self.key_for(k2)
                    kv.append((k2, self.build(v, path + (k2,))))
                return ('obj', kv)
            elems = tree["a"]
            if (getattr(self, "pad_arrays", False) and self.variant > 0 and 0 < len(elems) <= 3 and self.rng.random() < 0.2
                    and all(isinstance(e, list) and len(e) >= 2 and e[1] in ("user", "any") for e in elems)):
                # a long operand list: numbers at the first, middle and last position, the original elements in between
                num = ["num", elems[0][1]]
                if self.rng.random() < 0.35 and any(e[0] == "plain" for e in elems):
                    # ... or a long list of strings (66 ... 130 operands: after redaction they all look alike)
                    st = [e for e in elems if e[0] == "plain"][0]
                    elems = list(elems) + [list(st)] * (self.rng.choice([66, 100, 130]) - len(elems))
                else:
                    elems = [num] + list(elems) + [num] * (39 - len(elems))
                if getattr(self, "twins", False):
                    # (C03 only) one of the strings that follow is spelled exactly like the number in front of them: "7000123.45" next to 7000123.45
                    first = self.build(elems[0], path + (0,))
                    self._twin = first[1] if first[0] == 'num' else None
                    rest = [self.build(v, path + (i,)) for i, v in enumerate(elems) if i > 0]
                    self._twin = None
                    return ('arr', [first] + rest)
            return ('arr', [self.build(v, path + (i,)) for i, v in enumerate(elems)])
        return self.leaf(tree, path)

    def line(self, tree, line_id):
        # attr.ns decides the names used by every namespace leaf of the line
        self._nsrel_hint = "nseq"
        s = json.dumps(tree)
        self._has_insert = '["insert"' in s
        for rel in ("nsother", "nsprefix", "nseq"):
            if '"%s"' % rel in s:
                self._nsrel_hint = rel
                break
        node = self.build(tree)
        # the top-level id (outside every zone) maps output lines back to cases
        kv = [(k, ('num', str(line_id)) if k == "id" else v) for k, v in node[1]]
        if self.variant > 0 and self.rng.random() < 0.3:
            # a log that went through a re-serialiser: same members, another order ("attr" in front of "c" / "msg")
            kv = [e for e in kv if e[0] == "attr"] + [e for e in kv if e[0] != "attr"]
        if self.variant > 0 and self.rng.random() < 0.3:
            # ... or "ns" behind the command documents inside attr
            kv = [(k, ('obj', [e for e in v[1] if e[0] != "ns"] + [e for e in v[1] if e[0] == "ns"]) if k == "attr" and v[0] == 'obj' else v) for k, v in kv]
        # (the leaves stay in document order)
        order = {p_: i_ for i_, (p_, _) in enumerate(jsonx.leaves(('obj', kv)))}
        self.leaves.sort(key=lambda lf: order.get(lf.path, 1 << 30))
        for lf in self.leaves:
            if lf.path == ("id",):
                lf.node = ('num', str(line_id))
        return ('obj', kv)


# ------------------------------------------------------------------ running the real code
def run_batch(b, lines, cfg, workdir, keyfile=None, cwd=None):
    """lines: list of text lines. Returns (returncode, stdout_or_outfile_text, stderr)."""
    inp = os.path.join(workdir, "in-%s.log" % cfg.name)
    with open(inp, "w", encoding="utf-8") as f:
        for l in lines:
            f.write(l + "\n")
    args = ["redact", inp] + cfg.flags()
    if cfg.encrypt:
        outp = os.path.join(workdir, "out-%s.log" % cfg.name)
        args += ["-o", outp, "--encrypt", "-q", keyfile]
        p = common.run_cli(b, args, cwd=cwd)
        text = ""
        if os.path.exists(outp):
            with open(outp, encoding="utf-8", errors="replace") as f:
                text = f.read()
            os.remove(outp)
        os.remove(inp)
        return p.returncode, text, p.stderr.decode("utf-8", "replace")
    p = common.run_cli(b, args, cwd=cwd)
    os.remove(inp)
    return p.returncode, p.stdout.decode("utf-8", "replace"), p.stderr.decode("utf-8", "replace")


_ID_RE = re.compile(r'"id":\s*(\d+),\s*"ctx":')


def collect(lines_out):
    """stdout text -> {id: raw line}, stray (lines that are not one JSON object with the line's numeric id).
    The id is read with a regular expression where the line has the usual layout, with the full parser otherwise
    (so a serialiser that spaces differently is still understood)."""
    got, stray = {}, []
    for raw in lines_out.split("\n"):
        if raw == "":
            continue
        m = _ID_RE.search(raw) if raw.startswith("{") and raw.endswith("}") else None
        idn = None
        try:
            if m:
                idn = int(m.group(1))
                if STRICT_PARSE:
                    json.loads(raw)      # validity only (C parser); trees are built lazily where a judge needs them
            else:
                t = jsonx.parse(raw)
                if t[0] != 'obj':
                    raise ValueError("not an object")
                for k, v in t[1]:
                    if k == "id" and v[0] == 'num':
                        idn = int(v[1])
                        break
            if idn is None or idn in got:
                raise ValueError("no id / duplicate id")
            got[idn] = raw
        except Exception as e:
            stray.append((raw[:2000], str(e)))
    return got, stray


STRICT_PARSE = True

def run_with_bisect(b, lines, ids, cfg, workdir, keyfile, crashed, depth=0, cwd=None):
    """Runs a batch; when the process dies (exit status other than 0) the batch is bisected down to the lines
    that kill it (recorded in `crashed` with exit status and stderr) and the rest is re-run."""
    rc, out, err = run_batch(b, lines, cfg, workdir, keyfile, cwd)
    if rc == 0:
        return collect(out)
    if len(lines) == 1:
        crashed[ids[0]] = {"exit": rc, "stderr": err[-1500:], "line": lines[0][:4000]}
        return {}, []
    mid = len(lines) // 2
    g1, s1 = run_with_bisect(b, lines[:mid], ids[:mid], cfg, workdir, keyfile, crashed, depth + 1, cwd)
    g2, s2 = run_with_bisect(b, lines[mid:], ids[mid:], cfg, workdir, keyfile, crashed, depth + 1, cwd)
    g1.update(g2)
    return g1, s1 + s2


# ------------------------------------------------------------------ alignment / actual outcomes
def classify_leaf(inn, outn, cfg, cls):
    """One character: what the real code did to this leaf (same alphabet as the specification's FlatStr,
    plus c = ciphertext-looking, ? = changed into something unknown, T = JSON type changed)."""
    if outn is None:
        return "M"
    if inn[0] != outn[0]:
        return "T"
    if inn == outn:
        if inn[0] == 'str' and inn[1] == cfg.repl():
            return "="          # kept or replaced: indistinguishable (the literal equals the replacement text)
        return "k"
    t = inn[0]
    if t == 'str':
        s = outn[1]
        if s == cfg.repl():
            return "g"
        for ch, txt in PLACEHOLDERS.items():
            if s == txt:
                return ch
        if cfg.pseudo_re().match(s):
            return "h"
        if cls == "plan":
            return "p"
        if cfg.encrypt and re.fullmatch(r"[A-Za-z0-9+/]+=*", s) and len(s) >= 24:
            return "c"
        return "?"
    if t == 'num':
        return "z" if outn[1] == "0" else "?"
    if t == 'bool':
        return "f" if outn[1] is False else "?"
    return "?"


def align(inn, outn, cfg, leaves_by_path, path=()):
    """Walks input and output trees together.  Returns (tokens, problems): tokens in the format of FlatStr,
    problems = list of (kind, path, detail) for shape differences."""
    toks, probs = [], []

    def walk(a, b, path):
        t = a[0]
        if t == 'obj':
            toks.append("{")
            if b is None or b[0] != 'obj':
                probs.append(("type", path, "object became %s" % (b[0] if b else "nothing")))
                toks.append("}")
                return
            if len(a[1]) != len(b[1]):
                probs.append(("keys", path, "object has %d keys, had %d: %s -> %s" % (len(b[1]), len(a[1]), [k for k, _ in a[1]][:8], [k for k, _ in b[1]][:8])))
            for i, (k, v) in enumerate(a[1]):
                if i < len(b[1]):
                    k2, v2 = b[1][i]
                    if k2 == k:
                        toks.append("K")
                    elif cfg.pseudo_re().match(k2):
                        toks.append("H")
                    else:
                        toks.append("?")
                        probs.append(("key", path, "key %r became %r" % (k, k2)))
                    walk(v, v2, path + (k,))
                else:
                    toks.append("M")
                    walk(v, None, path + (k,))
            toks.append("}")
        elif t == 'arr':
            toks.append("[")
            if b is None or b[0] != 'arr':
                probs.append(("type", path, "array became %s" % (b[0] if b else "nothing")))
                toks.append("]")
                return
            if len(a[1]) != len(b[1]):
                probs.append(("len", path, "array length %d -> %d" % (len(a[1]), len(b[1]))))
            for i, v in enumerate(a[1]):
                walk(v, b[1][i] if i < len(b[1]) else None, path + (i,))
            toks.append("]")
        else:
            lf = leaves_by_path.get(path)
            c = classify_leaf(a, b, cfg, lf.cls if lf else None)
            if c == "T":
                probs.append(("leaftype", path, "%s became %s" % (a[0], b[0])))
            elif c == "M":
                probs.append(("missing", path, "leaf missing"))
            toks.append(c)
    walk(inn, outn, path)
    return toks, probs


def drift(pred, actual, cfg):
    """Is the real outcome different from the specification's prediction?  Tolerant where the observation is
    ambiguous (a boolean that already was false, plan summaries, ciphertext for any string placeholder)."""
    if len(pred) != len(actual):
        return True
    for p, a in zip(pred, actual):
        if p == a:
            continue
        if a == "=" and p in "kg":
            continue
        if p == "f" and a == "k":      # false stays false
            continue
        if p == "z" and a == "k":      # 0 stays 0
            continue
        if p == "p" and a in "kp":
            continue
        if cfg.encrypt and p in "gedob" and a == "c":
            continue
        if p == "g" and a in "edob" and False:
            continue
        return True
    return False


class Result:
    __slots__ = ("rec", "variant", "cfg", "inp", "leaves", "line", "raw", "_out", "crash", "pred", "_al", "gid", "cfam")

    @property
    def out(self):
        """The output line parsed by the independent reader (lazily: many judges decide on the raw bytes)."""
        if self._out is None and self.raw is not None:
            try:
                self._out = jsonx.parse(self.raw)
            except Exception:
                self._out = ('str', "<<unparseable output>>")
        return self._out

    def aligned(self):
        if self._al is None:
            self._al = align(self.inp, self.out, self.cfg, {l.path: l for l in self.leaves})
        return self._al

    def replay(self):
        return {"cfg": self.cfg.desc(), "variant": self.variant, "input_line": self.line[:20000],
                "output_line": (self.raw or "")[:20000], "abstract_case": self.rec.get("in"), "generator": self.rec.get("g"),
                "crash": self.crash}


# ------------------------------------------------------------------ chunk worker
_W = {}


def _worker_init(binfo, cfgs, judge_name, opts):
    _W["b"] = binfo
    _W["cfgs"] = cfgs
    mod, fn = judge_name.split(":")
    _W["judge"] = getattr(importlib.import_module(mod), fn)
    _W["opts"] = opts


class _B:
    def __init__(self, cli):
        self.cli = cli


def process_chunk(args):
    chunk_no, recs = args
    b = _B(_W["b"]["cli"])
    cfgs, judge, opts = _W["cfgs"], _W["judge"], _W["opts"]
    seed = opts["seed"]
    nvar = opts.get("variants", 1)
    keymap = opts.get("keymap")
    workdir = tempfile.mkdtemp(prefix="chunk%d-" % chunk_no, dir=_W["b"]["root"])
    res = {"evals": 0, "nontrivial": set(), "violations": [], "drift": 0, "drift_samples": [], "samples": [],
           "crashes": 0, "crash_samples": [], "stray": 0, "stray_samples": [], "extra": {}}
    try:
        cases = []   # (rec, variant, inp, leaves, line_text)
        for i, rec in enumerate(recs):
            for v in range(nvar):
                gid = (chunk_no * len(recs) + i) * nvar + v if False else len(cases)
                c = Concretiser(seed, chunk_no * 100000 + i, v, keymap=keymap, styles=opts.get("styles"))
                c.ns_style = bool(opts.get("ns_style"))
                c.clash = bool(opts.get("clash"))
                c.pad_arrays = bool(opts.get("pad_arrays"))
                c.twins = bool(opts.get("twins"))
                c.vocab_words = opts.get("vocab_words")
                c.fn_style = bool(opts.get("fn_style"))
                c.nsrel_by_variant = bool(opts.get("fn_style"))
                tree = c.line(rec["in"], gid)
                cases.append((rec, v, tree, c.leaves, jsonx.dumps(tree), tuple(c._fam or ())))
        lines = [c[4] for c in cases]
        ids = list(range(len(cases)))
        keyfile = os.path.join(workdir, "k.key")
        per_case = [dict() for _ in cases]
        for cfg in cfgs:
            crashed = {}
            got, stray = run_with_bisect(b, lines, ids, cfg, workdir, keyfile, crashed)
            res["stray"] += len(stray)
            for s in stray[:2]:
                if len(res["stray_samples"]) < 3:
                    res["stray_samples"].append({"cfg": cfg.name, "line": s[0][:500], "why": s[1]})
            for gid, (rec, v, tree, leaves, text, fam) in enumerate(cases):
                r = Result()
                r.cfam = fam
                r.rec, r.variant, r.cfg, r.inp, r.leaves, r.line = rec, v, cfg, tree, leaves, text
                r.raw = got.get(gid)
                r._out = None
                r.crash = crashed.get(gid)
                r.pred = rec["p"].get(cfg.name)
                r._al = None
                r.gid = gid
                per_case[gid][cfg.name] = r
                if r.crash:
                    res["crashes"] += 1
                    if len(res["crash_samples"]) < 3:
                        res["crash_samples"].append(r.replay())
        for gid, byc in enumerate(per_case):
            res["evals"] += len(byc)
            judge(byc, res)
            if opts.get("drift", True):
                for name, r in byc.items():
                    if r.variant != 0 or getattr(r.cfg, "nodrift", False):
                        continue
                    if opts.get("fn_style"):
                        # C15 concretises the namespace relation by variant (variant 0 = equal): the prediction belongs to the
                        # abstract relation of the record, so it is comparable only when the two coincide
                        nsl = [lf.cls for lf in r.leaves if lf.path == ("attr", "ns")]
                        if nsl and nsl[0] != "nseq":
                            continue
                    if r.out is not None and r.pred is not None:
                        toks, _ = r.aligned()
                        if drift(r.pred, toks, r.cfg):
                            res["drift"] += 1
                            if len(res["drift_samples"]) < 2:
                                res["drift_samples"].append({"cfg": r.cfg.desc(), "input": r.line[:1500], "output": r.raw[:1500],
                                                             "predicted": "".join(r.pred), "actual": "".join(toks)})
        if chunk_no == 0 and cases:
            r0 = per_case[0][cfgs[0].name]
            res["samples"].append({"input_line": r0.line[:1200], "cfg": r0.cfg.desc(), "output_line": (r0.raw or "")[:1200]})
        if opts.get("after"):
            # a check-specific pass over the same concretised cases (e.g. the same lines in-process after runs in other modes)
            m_, f_ = opts["after"].split(":")
            getattr(importlib.import_module(m_), f_)(_W, chunk_no, cases, per_case, cfgs, workdir, res)
    finally:
        import shutil
        shutil.rmtree(workdir, ignore_errors=True)
    res["nontrivial"] = list(res["nontrivial"])
    res["extra"] = {k: n for k, n in res["extra"].items() if isinstance(n, int)}
    return res


# ------------------------------------------------------------------ driver
class Replay:
    """Streams TLC records into a process pool; merges what the workers report into a common.Verdict."""

    def __init__(self, build, verdict, cfgs, judge_name, variants=1, chunk=1500, keymap=None, styles=None, drift=True, worker=None, ns_style=False, fn_style=False, clash=False, pad_arrays=False, twins=False, after=None, vocab_words=None):
        self.b, self.v, self.cfgs = build, verdict, cfgs
        self.opts = {"after": after, "vocab_words": vocab_words, "seed": verdict.seed, "variants": variants, "keymap": keymap, "styles": styles, "drift": drift, "ns_style": ns_style, "fn_style": fn_style, "clash": clash, "pad_arrays": pad_arrays, "twins": twins}
        self.pool = multiprocessing.get_context("fork").Pool(
            common.NCPU, initializer=_worker_init,
            initargs=({"cli": build.cli, "root": build.root, "inproc": build.inproc}, cfgs, judge_name, self.opts))
        self.buf, self.pending, self.chunk, self.nchunks = [], [], chunk, 0
        self._pids = set(w.pid for w in self.pool._pool)
        self.worker = process_chunk
        if worker:
            m_, f_ = worker.split(":")
            self.worker = getattr(importlib.import_module(m_), f_)
        self.records = 0
        self.crashes = 0
        self.crash_samples = []
        self.stray = 0
        self.stray_samples = []
        self.extra = {}
        self.seen = set()

    def sink(self, rec):
        # identical abstract cases (the same tree reached through two generator states) are replayed once
        h = hashlib.blake2b(json.dumps(rec["in"], sort_keys=True).encode(), digest_size=12).digest()
        if h in self.seen:
            return
        self.seen.add(h)
        self.records += 1
        self.buf.append(rec)
        if len(self.buf) >= self.chunk:
            self.flush()

    def flush(self):
        if self.buf:
            self.pending.append(self.pool.apply_async(self.worker, ((self.nchunks, self.buf),)))
            self.nchunks += 1
            self.buf = []

    def finish(self):
        self.flush()
        for p in self.pending:
            t0 = time.time()
            while not p.ready():
                p.wait(2)
                # a worker that died in the middle of a chunk would make this wait for ever
                if set(w.pid for w in self.pool._pool) != self._pids or any(w.exitcode is not None for w in self.pool._pool):
                    self.pool.terminate()
                    raise common.Infra("a replay worker process died in the middle of a chunk")
                if time.time() - t0 > 7200:
                    self.pool.terminate()
                    raise common.Infra("replay chunk timed out")
            r = p.get()
            self.v.count(r["evals"])
            for k in r["nontrivial"]:
                self.v.nontrivial(k)
            for sig, rep in r["violations"]:
                self.v.violation(sig, rep)
            self.v.drift += r["drift"]
            for s in r["drift_samples"]:
                if len(self.v.drift_samples) < 5:
                    self.v.drift_samples.append(s)
            for s in r["samples"]:
                self.v.sample(s)
            self.crashes += r["crashes"]
            self.crash_samples += r["crash_samples"][:2]
            self.stray += r["stray"]
            self.stray_samples += r["stray_samples"][:2]
            for k, n in r["extra"].items():
                if isinstance(n, int):
                    self.extra[k] = self.extra.get(k, 0) + n
        self.pending = []
        self.pool.close()
        self.pool.join()


def add_violation(res, sig, r, detail=None):
    if len(res["violations"]) < 40:
        rep = r.replay()
        if detail:
            rep["detail"] = detail
        res["violations"].append((sig, rep))
    else:
        res["violations"].append((sig, None))


def generate(module, cfgfile, cfgs, defines, sink, timeout=1500, simulate=None, depth=None, seed=None):
    d = {"Cfgs": cfgs_tla(cfgs), "TWTables": "{}", "TWShapeKinds": "{}", "EWDamaged": "FALSE", "FreeDepth": "1", "FreeKeys": "{}", "FreeSlots": "{}",
         "GMDepth": "4", "GMWide": "1", "GMMaxFld": "2", "GMMaxArr": "2", "GMTail": "2", "GMShallow": "2", "GMSeeds": "<< >>", "GMSlots": "{}", "GMFields": '{"uf1"}', "GMBelow": "{}",
         "GMKinds": '{"plain", "email", "num", "bool", "dollar", "date", "oid", "b64", "nsname", "null", "empty"}'}
    d.update(defines or {})
    t = common.run_tlc(module, cfgfile, defines=d, sink=sink, want_records=False, timeout=timeout,
                       simulate=simulate, depth=depth, seed=seed)
    if os.environ.get("VERIF_TIMING"):
        sys.stderr.write("TIMING %s distinct=%s wall=%.1fs\n" % (module, t.distinct, t.wall))
    return t


# ------------------------------------------------------------------ zones (judge-side, from the property statements)
HOLDERS = ("command", "cmd", "originatingCommand")
ZONE_KEYS = ("query", "filter", "sort", "update", "updates", "deletes", "q", "u", "documents", "pipeline", "arrayFilters", "c")
NS_COMMAND_FIELDS = ("ns", "aggregate", "insert", "find", "update", "collection", "delete", "$db", "count", "findAndModify",
                     "findOneAndDelete", "replace", "findOneAndReplace", "findOneAndUpdate", "getIndexes", "countDocuments")


def in_zone(path):
    """attr/<holder>/<zone key>/... (positions where redaction may change something)."""
    return len(path) >= 3 and path[0] == "attr" and path[1] in HOLDERS and path[2] in ZONE_KEYS


def is_gated(inp):
    c = jsonx.get(inp, ("c",))
    m = jsonx.get(inp, ("msg",))
    return (c is not None and c[0] == 'str' and c[1] in ("COMMAND", "QUERY", "WRITE")) or (m is not None and m == ('str', "Slow query"))


def keep_position(path, leaf=None):
    """C04: $limit / $skip arguments at any pipeline depth; in top-level stages $sample.size, search / vectorSearch
    index, numCandidates, limit.  Only real arguments count: numbers, and for index names strings that are not
    '$' references (a '$field' string there is not an argument the statement speaks about)."""
    if not in_zone(path) or len(path) < 5 or path[2] != "pipeline":
        return False
    if leaf is not None:
        if leaf[0] == 'str' and (leaf[1].startswith("$") or path[-1] != "index"):
            return False
        if leaf[0] not in ('num', 'str'):
            return False
    if path[-1] in ("$limit", "$skip") and isinstance(path[-2], int):
        return True
    if len(path) == 6 and isinstance(path[3], int):
        st, arg = path[4], path[5]
        if st == "$sample" and arg == "size":
            return True
        if st in ("$search", "$searchMeta") and arg == "index":
            return True
        if st == "$vectorSearch" and arg in ("index", "numCandidates", "limit"):
            return True
    return False


def walk_both(a, b, path=()):
    """Yields ('key', path, k_in, k_out) and ('leaf', path, in_node, out_node) while the shapes agree; ('shape', path, why) where they do not."""
    t = a[0]
    if t == 'obj':
        if b is None or b[0] != 'obj' or len(b[1]) != len(a[1]):
            yield ('shape', path, "object vs %s" % (b[0] if b else None))
            return
        for (k, v), (k2, v2) in zip(a[1], b[1]):
            yield ('key', path + (k,), k, k2)
            yield from walk_both(v, v2, path + (k,))
    elif t == 'arr':
        if b is None or b[0] != 'arr' or len(b[1]) != len(a[1]):
            yield ('shape', path, "array vs %s" % (b[0] if b else None))
            return
        for i, (v, v2) in enumerate(zip(a[1], b[1])):
            yield from walk_both(v, v2, path + (i,))
    else:
        yield ('leaf', path, a, b)


# ------------------------------------------------------------------ helpers for label-based judges
def abstract_path(path, upto=None):
    """Concrete path -> signature path: array indexes become [], planted user names become their abstract role."""
    out = []
    for p in (path if upto is None else path[:upto]):
        if isinstance(p, int):
            out.append("[]")
        else:
            q = p
            for ex in EXOTIC_KEYS:
                if ex in p and p != ex:
                    q = ex
            out.append(q)
    return "/".join(out)


def grammar_dump():
    r = common.run_tlc("GrammarDump", "GrammarDump.cfg", workers=1, timeout=300)
    if not r.ok or not r.records:
        raise common.Infra("GrammarDump failed: %s" % r.out[-500:])
    return r.records[0]


def grammar_edges(dump=None):
    d = dump or grammar_dump()
    return set((a, b) for a, b, _ in d["edges"])


CONTEXTS = [
    ("pipeline", ["[]", "$match"]),
    ("pipeline", ["[]", "$lookup", "pipeline", "[]", "$match"]),
    ("pipeline", ["[]", "$lookup", "pipeline", "[]", "$set"]),
    ("pipeline", ["[]", "$facet", "uf1", "[]", "$match"]),
    ("pipeline", ["[]", "$unionWith", "pipeline", "[]"]),
    ("pipeline", ["[]", "$search", "equals", "value"]),
    ("pipeline", ["[]", "$search", "compound", "must", "[]"]),
    ("pipeline", ["[]", "$search", "compound", "filter", "[]", "equals", "value"]),
    ("pipeline", ["[]", "$search", "embeddedDocument", "operator"]),
    ("pipeline", ["[]", "$searchMeta", "facet", "operator"]),
    ("pipeline", ["[]", "$searchMeta", "facet", "operator", "equals", "value"]),
    ("pipeline", ["[]", "$vectorSearch", "filter"]),
    ("pipeline", ["[]", "$set", "uf1"]),
    ("pipeline", ["[]", "$group", "_id"]),
    ("pipeline", ["[]", "$replaceRoot", "newRoot"]),
    ("pipeline", ["[]", "$merge", "whenMatched", "[]"]),
    ("pipeline", ["[]", "$rankFusion", "input", "pipelines", "uf1", "[]"]),
    ("update", ["[]", "$set", "uf1"]),
    ("update", ["[]", "$match"]),
    ("updates", ["[]", "u"]),
    ("updates", ["[]", "u", "[]", "$set", "uf1"]),
    ("updates", ["[]", "q"]),
    ("deletes", ["[]", "q"]),
    ("documents", ["[]"]),
    ("filter", ["$expr"]),
    ("filter", ["$and", "[]"]),
    ("filter", ["uf1", "$elemMatch"]),
]


def grammar_seeds(dump, field="uf1", slots=("filter", "update", "updates", "deletes", "documents", "pipeline", "sort"),
                  contexts=None, extra_depth=3, field_after_every_edge=False):
    """One shortest key path through every edge of the grammar (key edges, the user-field edge and the array edge of
    every nonterminal): shortest prefix from a command slot + the edge + shortest completion to a nonterminal that
    admits a scalar.  Returned as the TLA+ text of the constant GMSeeds; RedactorGM validates each against G."""
    import collections
    succ = collections.defaultdict(list)     # nt -> [(key, child)]
    for nt, k, ch in dump["edges"]:
        succ[nt].append((k, ch))
    kinds = {}
    for nt, f, a, nk in dump["links"]:
        kinds[nt] = nk
        if f != "none":
            succ[nt].append((field, f))
        if a != "none":
            succ[nt].append(("[]", a))
    for nt in succ:
        succ[nt].sort()
    # shortest prefix (slot, keys) to every nonterminal
    prefix = {}
    q = collections.deque()
    for s in slots:
        nt = dump["slots"][s]
        if nt not in prefix:
            prefix[nt] = (s, [])
            q.append(nt)
    while q:
        nt = q.popleft()
        for k, ch in succ.get(nt, []):
            if ch not in prefix:
                prefix[ch] = (prefix[nt][0], prefix[nt][1] + [k])
                q.append(ch)
    # shortest completion from every nonterminal to one with scalars
    comp = {nt: [] for nt, n in kinds.items() if n > 0}
    changed = True
    while changed:
        changed = False
        for nt in list(succ):
            if nt in comp:
                continue
            best = None
            for k, ch in succ[nt]:
                if ch in comp and (best is None or len(comp[ch]) + 1 < len(best)):
                    best = [k] + comp[ch]
            if best is not None:
                comp[nt] = best
                changed = True
    seeds = set()
    for nt in succ:
        if nt not in prefix:
            continue
        s, pre = prefix[nt]
        for k, ch in succ[nt]:
            if ch in comp:
                seeds.add((s, tuple(pre + [k] + comp[ch])))
            # ... and the same key over an *array* of such values (operand lists: $and / $or / $concat / $in ...)
            for k2, ch2 in succ.get(ch, []):
                if k2 == "[]" and k != "[]" and ch2 in comp:
                    seeds.add((s, tuple(pre + [k, "[]"] + comp[ch2])))
    # the same sub-grammars reached through the other walkers / contexts
    for s, ctx in (contexts if contexts is not None else CONTEXTS):
        nt = dump["slots"][s]
        okp = True
        for k in ctx:
            nxt = [ch for kk, ch in succ.get(nt, []) if kk == k]
            if not nxt:
                okp = False
                break
            nt = nxt[0]
        if not okp:
            continue
        local = {nt: []}
        q = collections.deque([nt])
        while q:
            x = q.popleft()
            if len(local[x]) >= extra_depth:
                continue
            for k, ch in succ.get(x, []):
                if ch in comp:
                    seeds.add((s, tuple(ctx + local[x] + [k] + comp[ch])))
                for k2, ch2 in succ.get(ch, []):
                    if k2 == "[]" and k != "[]" and ch2 in comp:
                        seeds.add((s, tuple(ctx + local[x] + [k, "[]"] + comp[ch2])))
                    # (C14) a user field directly below EVERY edge of the context, not only below the first path that reaches its nonterminal
                    if field_after_every_edge and k2 == field and ch2 in comp:
                        seeds.add((s, tuple(ctx + local[x] + [k, field] + comp[ch2])))
                if ch not in local:
                    local[ch] = local[x] + [k]
                    q.append(ch)
    q_ = lambda x: '"' + x.replace("\\", "\\\\").replace('"', '\\"') + '"'
    ordered = sorted(seeds)
    nchunks = 64
    chunks = [ordered[i::nchunks] for i in range(nchunks)]
    txt = "<< " + ", ".join("{" + ", ".join("<<%s, <<%s>>>>" % (q_(s), ", ".join(q_(k) for k in ks)) for s, ks in ch) + "}"
                            for ch in chunks if ch) + " >>"
    return txt, len(seeds)


class EdgeCoverage:
    """Collects, from the meta data of grammar-mode records, which (nonterminal, key) edges were exercised."""

    def __init__(self, sink):
        self.inner, self.seen = sink, set()

    def sink(self, rec):
        for e in rec.get("m", []) or []:
            self.seen.add((e[0], e[1]))
        rec.pop("m", None)
        self.inner(rec)


def vocabulary_fields(b):
    """Non-$ words of the implementation's CURRENT operator tables (and of the specification's), as the TLA+ set of
    user field names for the 'a user field may be called like an operator argument' cases; plus the list of
    differences between the current tables and spec/OperatorTables.tla (reported as drift, never a verdict)."""
    import tables
    spec = tables.load_spec_dump()
    words = set(w for w in tables.vocabulary(spec) if not w.startswith("$") and w)
    drift = []
    if b.inproc and "tables" in b.ops:
        cur = common.run_inproc(b, [{"op": "tables"}])[0]["result"]
        words |= set(w for w in tables.vocabulary(cur) if not w.startswith("$") and w)
        for path, a, c_ in tables.diff(tables.normalise(spec), tables.normalise(cur)):
            drift.append({"entry": "/".join(path), "specification": a if not isinstance(a, dict) else "table", "implementation": c_ if not isinstance(c_, dict) else "table"})
        if drift:
            print("TABLE-DRIFT %d operator-table entries differ from spec/OperatorTables.tla, e.g. %s" % (len(drift), json.dumps(drift[:3])))
    return "{" + ", ".join('"%s"' % w for w in sorted(words)) + "}", drift
