"""A scripted fake of the Atlas Admin API for the *unmodified* CLI (and for library-level runs).

The binary is started with HTTPS_PROXY=http://127.0.0.1:<port> and SSL_CERT_FILE=<harness/certs/ca.pem>; this server accepts
`CONNECT cloud.mongodb.com:443`, terminates TLS with a leaf certificate for that name and serves the scripted API on the tunnel.
It records, in order: every CONNECT target (so "sent only to the Atlas endpoint" is observed, not assumed), every request line,
header and body, whether the Authorization header is a correct digest response for the configured key pair, and a listing of the
run's private TMPDIR taken while the client is blocked waiting for the reply (a true linearisation point on the far side of the
network).  Library-level runs use the same handler over plain HTTP (base_url)."""
import hashlib, json, os, re, socket, socketserver, ssl, threading, time, urllib.parse

CERTS = os.path.join(os.path.dirname(os.path.dirname(os.path.abspath(__file__))), "harness", "certs")
ATLAS_HOST = "cloud.mongodb.com:443"


def md5(s):
    return hashlib.md5(s.encode("utf-8")).hexdigest()


class Scenario:
    """What the fake endpoint serves.
    hosts: list of host names (as they appear in the connection string, with or without :port - see conn_hosts)
    payloads: dict host(without port) -> bytes served for /logs/mongodb.gz
    auth: "digest" | "none" (no challenge: serves at once) | "basic" (challenges with Basic) | "reject" (401 even after a correct
          digest response) | "digest_unknown" (a Digest challenge with an unknown directive) | "digest_bare" (a Digest challenge with a directive that has no '=')
    faults: dict request_key -> fault, request_key = "cluster" or host name (without port); fault =
          ("status", code, echo_headers) | ("reset",) | ("cut", nbytes) | ("nolength_cut", nbytes)"""

    def __init__(self, project="5f1a2b3c4d5e6f7a8b9c0d1e", cluster="Cluster0", conn_hosts=("h1.example.net:27017",), payloads=None,
                 auth="digest", faults=None, public="pubkeyAB", private="priv-KEY/with+chars=and space", srv=None, conn_string=None,
                 cluster_body=None, chunked=False):
        self.project, self.cluster, self.conn_hosts = project, cluster, list(conn_hosts)
        self.payloads = payloads or {}
        self.auth, self.faults = auth, dict(faults or {})
        self.public, self.private = public, private
        self.conn_string = conn_string
        self.cluster_body = cluster_body
        self.chunked = chunked        # log bodies are streamed (Transfer-Encoding: chunked, no Content-Length)
        self.srv = srv

    def standard(self):
        if self.conn_string is not None:
            return self.conn_string
        return "mongodb://" + ",".join(self.conn_hosts) + "/?ssl=true&authSource=admin&replicaSet=atlas-abc-shard-0"


class FakeAtlas:
    def __init__(self, scenario, tmpdir=None, tls=True):
        self.sc = scenario
        self.tmpdir = tmpdir
        self.tls = tls
        self.log = []          # request records, in arrival order
        self.connects = []     # CONNECT targets / plain proxy requests
        self.lock = threading.Lock()
        self.nonces = set()
        self.seq = 0
        self.once_used = set()     # faults marked "once" that have fired
        self.seq_pos = {}          # position in a fault sequence ("seq") per request key
        outer = self

        class H(socketserver.BaseRequestHandler):
            def handle(self):
                try:
                    outer._handle(self.request)
                except Exception:
                    pass

        class S(socketserver.ThreadingTCPServer):
            allow_reuse_address = True
            daemon_threads = True

        self.srv = S(("127.0.0.1", 0), H)
        self.port = self.srv.server_address[1]
        self.thread = threading.Thread(target=self.srv.serve_forever, kwargs={"poll_interval": 0.05}, daemon=True)
        self.thread.start()
        if tls:
            self.ctx = ssl.SSLContext(ssl.PROTOCOL_TLS_SERVER)
            self.ctx.load_cert_chain(os.path.join(CERTS, "leaf.pem"), os.path.join(CERTS, "leaf.key"))

    # -- environment for the CLI
    def env(self):
        return {"HTTPS_PROXY": "http://127.0.0.1:%d" % self.port, "HTTP_PROXY": "http://127.0.0.1:%d" % self.port,
                "SSL_CERT_FILE": os.path.join(CERTS, "ca.pem"), "NO_PROXY": "", "no_proxy": ""}

    def base_url(self):
        return "http://127.0.0.1:%d" % self.port

    def close(self):
        try:
            self.srv.shutdown()
            self.srv.server_close()
        except Exception:
            pass

    # -- wire level
    @staticmethod
    def _read_head(sock):
        buf = b""
        while b"\r\n\r\n" not in buf:
            d = sock.recv(65536)
            if not d:
                return None
            buf += d
            if len(buf) > 1 << 20:
                return None
        head, rest = buf.split(b"\r\n\r\n", 1)
        return head.decode("latin-1"), rest

    def _handle(self, sock):
        sock.settimeout(30)
        r = self._read_head(sock)
        if r is None:
            return
        head, rest = r
        lines = head.split("\r\n")
        first = lines[0].split(" ")
        if self.tls:
            if first[0] != "CONNECT":
                with self.lock:
                    self.connects.append({"kind": "plain", "line": lines[0], "headers": lines[1:]})
                sock.sendall(b"HTTP/1.1 502 Bad Gateway\r\nContent-Length: 0\r\n\r\n")
                return
            with self.lock:
                self.connects.append({"kind": "connect", "target": first[1], "headers": lines[1:]})
            if first[1] != ATLAS_HOST:
                sock.sendall(b"HTTP/1.1 502 Bad Gateway\r\nContent-Length: 0\r\n\r\n")
                return
            sock.sendall(b"HTTP/1.1 200 Connection established\r\n\r\n")
            try:
                sock = self.ctx.wrap_socket(sock, server_side=True)
            except Exception as e:
                with self.lock:
                    self.connects.append({"kind": "tls_error", "error": str(e)})
                return
            sock.settimeout(30)
            while True:
                r = self._read_head(sock)
                if r is None:
                    return
                head, rest = r
                if not self._serve(sock, head):
                    return
        else:
            self._serve(sock, head)

    def _listing(self):
        if not self.tmpdir:
            return None
        try:
            # (files an earlier, killed run left behind - planted by the harness under a recognisable name - are not this run's)
            return sorted((n, os.path.getsize(os.path.join(self.tmpdir, n))) for n in os.listdir(self.tmpdir) if "stale0" not in n)
        except OSError:
            return []

    def _serve(self, sock, head):
        lines = head.split("\r\n")
        method, target, _ = (lines[0].split(" ") + ["", ""])[:3]
        headers = {}
        for l in lines[1:]:
            if ":" in l:
                k, v = l.split(":", 1)
                headers.setdefault(k.strip().lower(), []).append(v.strip())
        u = urllib.parse.urlsplit(target)
        q = urllib.parse.parse_qs(u.query, keep_blank_values=True)
        sc = self.sc
        rec = {"method": method, "target": target, "path": u.path, "query": {k: v for k, v in q.items()}, "headers": headers,
               "raw_head": head, "tmp": self._listing(), "t": time.time()}
        auth = headers.get("authorization", [None])[0]
        rec["authorization"] = auth
        rec["digest_ok"] = self._check_digest(method, target, auth) if auth else None
        # which API object is addressed
        m_cluster = re.fullmatch(r"/api/atlas/v2/groups/([^/]+)/clusters/([^/]+)", u.path)
        m_logs = re.fullmatch(r"/api/atlas/v2/groups/([^/]+)/clusters/([^/]+)/logs/mongodb\.gz", u.path)
        key = None
        if m_logs:
            rec["kind"], rec["project"], rec["host"] = "logs", m_logs.group(1), m_logs.group(2)
            key = m_logs.group(2)
        elif m_cluster:
            rec["kind"], rec["project"], rec["cluster"] = "cluster", m_cluster.group(1), m_cluster.group(2)
            key = "cluster"
        else:
            rec["kind"] = "other"
        with self.lock:
            self.seq += 1
            rec["n"] = self.seq
            self.log.append(rec)

        def send(status, body=b"", extra=None, content_length=None, close=False):
            reason = {200: "OK", 401: "Unauthorized", 403: "Forbidden", 404: "Not Found", 500: "Internal Server Error"}.get(status, "X")
            hs = ["HTTP/1.1 %d %s" % (status, reason), "Content-Length: %d" % (len(body) if content_length is None else content_length)]
            hs += extra or []
            if close:
                hs.append("Connection: close")
            sock.sendall(("\r\n".join(hs) + "\r\n\r\n").encode("latin-1") + body)
            return not close

        fault = sc.faults.get(key) if key else None
        if fault and fault[0] == "seq":
            # a fault sequence: every served (authenticated) request for this key meets the next fault of the list, the last one for good -
            # what a client that retries would see (a client that gives up at the first failure only ever meets the first)
            with self.lock:
                pos = self.seq_pos.get(key, 0)
                if rec.get("authorization") or sc.auth == "none":
                    self.seq_pos[key] = pos + 1
            fault = fault[1][min(pos, len(fault[1]) - 1)]
        if fault and fault[-1] == "once":
            if key in self.once_used:
                fault = None
            elif rec.get("authorization") or sc.auth == "none":
                with self.lock:
                    self.once_used.add(key)
        # --- authentication
        if sc.auth in ("digest", "reject", "digest_unknown", "digest_bare") and not auth:
            nonce = hashlib.sha1(os.urandom(16)).hexdigest()
            with self.lock:
                self.nonces.add(nonce)
            ch = 'Digest realm="MMS Public API", domain="", nonce="%s", algorithm=MD5, qop="auth", stale=false' % nonce
            if sc.auth == "digest_unknown":
                ch += ", charset=UTF-8"
            if sc.auth == "digest_bare":
                # a directive without '=' (some proxies shorten stale=false to a bare flag)
                ch = ch.replace(", stale=false", ", stale")
            rec["challenged"] = True
            return send(401, b'{"error":401,"reason":"Unauthorized"}', ["WWW-Authenticate: " + ch, "Content-Type: application/json"])
        if sc.auth == "basic" and not auth:
            rec["challenged"] = "basic"
            return send(401, b'{"error":401}', ['WWW-Authenticate: Basic realm="MMS Public API"'])
        if sc.auth == "reject" or (sc.auth in ("digest", "digest_unknown", "digest_bare") and not rec["digest_ok"]) or (sc.auth == "basic" and auth):
            rec["rejected"] = True
            return send(401, b'{"error":401,"reason":"Unauthorized","detail":"bad credentials"}', ["Content-Type: application/json"])
        rec["served"] = True
        # --- faults
        if fault:
            rec["fault"] = list(fault)
            if fault[0] == "status":
                # the body Atlas sends with such an answer: an errorCode the client may want to explain (rotating through the usual ones)
                codes = ["IP_ADDRESS_NOT_ON_ACCESS_LIST", "ORG_REQUIRES_ACCESS_LIST", "USER_UNAUTHORIZED", "RESOURCE_NOT_FOUND", "CLUSTER_NOT_FOUND",
                         "NOT_ATLAS_GROUP", "RATE_LIMITED", "INVALID_ATTRIBUTE", "UNEXPECTED_ERROR"]
                try:
                    ec = codes[int(sc.project[-4:]) % len(codes)]          # by scenario variant (the project id ends in it)
                except ValueError:
                    ec = codes[(fault[1] + len(self.log)) % len(codes)]
                body = json.dumps({"error": fault[1], "errorCode": ec, "reason": {401: "Unauthorized", 403: "Forbidden", 404: "Not Found"}.get(fault[1], "Error"),
                                   "detail": "scripted failure (%s)" % ec, "parameters": [sc.project], "you_sent": head if (len(fault) > 2 and fault[2]) else ""}).encode()
                return send(fault[1], body, ["Content-Type: application/json"])
            if fault[0] == "reset":
                try:
                    sock.setsockopt(socket.SOL_SOCKET, socket.SO_LINGER, b"\x01\x00\x00\x00\x00\x00\x00\x00")
                except Exception:
                    pass
                try:
                    sock.close()
                except Exception:
                    pass
                return False
        # --- bodies
        if rec["kind"] == "cluster":
            if sc.cluster_body is not None:
                body = sc.cluster_body
            else:
                body = json.dumps({"name": sc.cluster, "connectionStrings": {"standard": sc.standard(),
                                                                             "standardSrv": sc.srv or "mongodb+srv://cluster0.ab1cd.mongodb.net"},
                                   "stateName": "IDLE"}).encode()
            return send(200, body, ["Content-Type: application/vnd.atlas.2025-03-12+json"])
        if rec["kind"] == "logs":
            body = sc.payloads.get(rec["host"], b"")
            if fault and fault[0] == "cut":
                n = min(fault[1], len(body))
                send(200, body[:n], ["Content-Type: application/vnd.atlas.2023-02-01+gzip"], content_length=len(body), close=True)
                time.sleep(0.02)
                try:
                    sock.close()
                except Exception:
                    pass
                return False
            if sc.chunked:
                hs = "HTTP/1.1 200 OK\r\nContent-Type: application/vnd.atlas.2023-02-01+gzip\r\nTransfer-Encoding: chunked\r\n\r\n"
                out = [hs.encode("latin-1")]
                for i in range(0, len(body), 97):
                    piece = body[i:i + 97]
                    out.append(("%x\r\n" % len(piece)).encode() + piece + b"\r\n")
                out.append(b"0\r\n\r\n")
                sock.sendall(b"".join(out))
                return True
            return send(200, body, ["Content-Type: application/vnd.atlas.2023-02-01+gzip"])
        return send(404, b"{}")

    def _check_digest(self, method, target, auth):
        if not auth.lower().startswith("digest "):
            return False
        kv = dict((m.group(1).lower(), m.group(2) if m.group(2) is not None else m.group(3))
                  for m in re.finditer(r'(\w+)=(?:"([^"]*)"|([^,\s]+))', auth[7:]))
        sc = self.sc
        if kv.get("username") != sc.public or kv.get("nonce") not in self.nonces:
            return False
        ha1 = md5("%s:%s:%s" % (sc.public, kv.get("realm", ""), sc.private))
        ha2 = md5("%s:%s" % (method, kv.get("uri", target)))
        if kv.get("qop"):
            want = md5(":".join([ha1, kv.get("nonce", ""), kv.get("nc", ""), kv.get("cnonce", ""), kv.get("qop", ""), ha2]))
        else:
            want = md5(":".join([ha1, kv.get("nonce", ""), ha2]))
        return want == kv.get("response") and kv.get("uri") == target
