"""An order- and literal-preserving JSON reader/writer, independent of the Go parser under test.
Trees are tuples:  ('obj', [(key, node), ...])  ('arr', [node, ...])  ('str', text)  ('num', literal text)
('bool', True/False)  ('null', None)."""
import json


class _Num(str):
    pass


def _hook(pairs):
    return ('obj', pairs)


def _conv(v):
    if isinstance(v, tuple):
        return ('obj', [(k, _conv(x)) for k, x in v[1]])
    if isinstance(v, list):
        return ('arr', [_conv(x) for x in v])
    if isinstance(v, _Num):
        return ('num', str(v))
    if isinstance(v, str):
        return ('str', v)
    if isinstance(v, bool):
        return ('bool', v)
    if v is None:
        return ('null', None)
    raise ValueError("unexpected %r" % (v,))


def parse(text):
    """Strict: exactly one JSON value; duplicate keys are kept (as pairs)."""
    return _conv(json.loads(text, object_pairs_hook=_hook, parse_int=_Num, parse_float=_Num,
                            parse_constant=lambda c: (_ for _ in ()).throw(ValueError(c))))


def dumps(node, ensure_ascii=False, sep=(',', ':')):
    """sep: item and key separators - (',', ':') is mongod's compact form, (', ', ': ') the form of jq -c / Python / pretty printers."""
    t, x = node
    if t == 'obj':
        return '{' + sep[0].join(json.dumps(k, ensure_ascii=ensure_ascii) + sep[1] + dumps(v, ensure_ascii, sep) for k, v in x) + '}'
    if t == 'arr':
        return '[' + sep[0].join(dumps(v, ensure_ascii, sep) for v in x) + ']'
    if t == 'str':
        return json.dumps(x, ensure_ascii=ensure_ascii)
    if t == 'num':
        return x
    if t == 'bool':
        return 'true' if x else 'false'
    return 'null'


def leaves(node, path=()):
    """DFS list of (path, leaf node); path elements are keys (str) or indexes (int)."""
    t, x = node
    if t == 'obj':
        out = []
        for k, v in x:
            out += leaves(v, path + (k,))
        return out
    if t == 'arr':
        out = []
        for i, v in enumerate(x):
            out += leaves(v, path + (i,))
        return out
    return [(path, node)]


def get(node, path):
    for p in path:
        t, x = node
        if t == 'obj' and isinstance(p, str):
            for k, v in x:
                if k == p:
                    node = v
                    break
            else:
                return None
        elif t == 'arr' and isinstance(p, int) and 0 <= p < len(x):
            node = x[p]
        else:
            return None
    return node


def shape(node):
    """Keys in order, array lengths, leaf JSON types."""
    t, x = node
    if t == 'obj':
        return ('obj', [(k, shape(v)) for k, v in x])
    if t == 'arr':
        return ('arr', [shape(v) for v in x])
    return t


def all_strings(node, keys=True):
    """Every decoded key and string value of a tree."""
    t, x = node
    if t == 'obj':
        for k, v in x:
            if keys:
                yield k
            yield from all_strings(v, keys)
    elif t == 'arr':
        for v in x:
            yield from all_strings(v, keys)
    elif t == 'str':
        yield x
