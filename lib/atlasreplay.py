"""Replay of spec/AtlasMC.tla terminal states on the real code (CLI behind the fake endpoint, or library level), shared by the
C16 / C17 / C20 checks and the Atlas part of C08."""
import base64, gzip, json, os, re, shutil, tempfile, urllib.parse
import common, fakeatlas as fa, streamlib as sl, atlaslib as al


def atlas_params(max_hosts, auths, kinds, clis=(True, False)):
    q = lambda xs: "{" + ", ".join('"%s"' % x for x in xs) + "}"
    return ("---- MODULE AtlasParams ----\nMaxHosts == %d\nAAuth == %s\nAKinds == %s\nACli == {%s}\n====\n" %
            (max_hosts, q(auths), q(kinds), ", ".join("TRUE" if c else "FALSE" for c in clis)))


def run_atlas_mc(max_hosts, auths, kinds, clis=(True, False), timeout=900):
    r = common.run_tlc("AtlasMC", "AtlasMC.cfg", timeout=timeout, files={"AtlasParams.tla": atlas_params(max_hosts, auths, kinds, clis)})
    if not r.ok:
        raise common.Infra("TLC on AtlasMC failed: %s\n%s" % (r.violation, r.out[-1500:]))
    # a reset may or may not be retried by the transport: keep one record per environment, remember both predictions
    return r


def host_names(n, variant):
    names = []
    for i in range(1, n + 1):
        h = "atlas-abc%d-shard-00-%02d.ab1cd.mongodb.net" % (variant % 7, i)
        port = ":27017" if (variant + i) % 3 != 0 else ""
        if variant % 5 == 4:
            port = ":2701%d" % i
        names.append((h, h + port))
    if variant % 3 == 1:
        # the members are not listed in alphabetical order (shards listed 02,01,00; node-c,node-a,node-b)
        names = names[::-1] if n != 3 else [names[2], names[0], names[1]]
    return names


class Case:
    pass


def build_case(rec, pool, variant, status_code=None):
    """rec: a terminal record of AtlasMC. Returns a Case with the scenario, plain payloads, the prepare hook."""
    c = Case()
    n = rec["n"]
    c.rec, c.variant = rec, variant
    c.names = host_names(n, variant)
    c.plain, payloads = {}, {}
    fk, fat = rec["fault"]["kind"], rec["fault"]["at"]
    for i, (h, hp) in enumerate(c.names, 1):
        kinds = [("cmd", "oth", "cmd", "txt", "cmd"), ("cmd", "cmd", "blank", "oth"), ("oth", "cmd"), ("cmd",) * 6][(variant + i) % 4]
        if variant % 6 == 5 and i == 1:
            kinds = ()              # an empty log
        lines = sl.concretise(pool, list(kinds), 1 + variant, 500 + 10 * variant + i)
        plain = sl.file_bytes(lines, True, False)
        gz = gzip.compress(plain, mtime=0)
        if variant % 4 == 3 and len(lines) > 1:
            # a multi-member archive
            cut = len(lines) // 2
            gz = gzip.compress(sl.file_bytes(lines[:cut], True, False), mtime=0) + gzip.compress(sl.file_bytes(lines[cut:], True, False), mtime=0)
            if variant % 8 == 7:
                # members are a transport detail: the boundaries fall anywhere, also inside a log line (rotated / block-compressed logs)
                a, b_ = len(plain) // 3, 2 * len(plain) // 3 + 5
                gz = gzip.compress(plain[:a], mtime=0) + gzip.compress(plain[a:b_], mtime=0) + gzip.compress(b"", mtime=0) + gzip.compress(plain[b_:], mtime=0)
        if fat == i and fk == "notgzip":
            gz = plain if plain else b"not a gzip archive\n"
            if variant % 3 == 0:
                gz = b""            # the host answers 200 with a complete, empty body
        if fk == "none" and not rec["cli"] and variant % 7 == 6 and i == n:
            gz, plain = b"", b""    # library level: an empty download is a download (served bytes = stored bytes), and is cleaned up like one
        if fat == i and fk == "longline":
            longl = pool.junk_line("long", variant, 77)
            ll = list(lines[:1]) + [("long", longl, 0)] + list(lines[1:])
            plain = sl.file_bytes(ll, True, False)
            gz = gzip.compress(plain, mtime=0)
        if fat == i and fk == "gzcut":
            plain = plain + plain + plain
            full = gzip.compress(plain, mtime=0)
            gz = full[:max(12, len(full) // 2)]
        c.plain[h] = plain
        payloads[h] = gz
    faults = {}
    if fk == "status":
        code = status_code or [401, 404, 500, 403][variant % 4]
        faults["cluster" if fat == 0 else c.names[fat - 1][0]] = ("status", code, True)
    elif fk == "reset":
        faults["cluster" if fat == 0 else c.names[fat - 1][0]] = ("reset",)
    elif fk == "cut":
        body = payloads[c.names[fat - 1][0]]
        j = [0, 1, len(body) // 2, max(0, len(body) - 1)][variant % 4]
        faults[c.names[fat - 1][0]] = ("cut", j)
    c.payloads = payloads
    c.tmp_missing = (fk == "notmp")       # TMPDIR names a directory that does not exist
    # (the fifth: characters with a meaning in regular expressions / format strings / shells, unbalanced)
    private = ["priv-KEY/with+chars=and space", "s3cr3t&key?x=1#frag%41", "0b9f5c3e-7d1a-4c2b-9e8f-6a5d4c3b2a1f", "ünï-çødé/ключ+鍵",
               "Zk(9pX[secret*7741  +x{2}\\d|%s$(id)`",
               # (the sixth: a key no longer than what a "show the last four characters" mask leaves visible)
               "qZ7$"][(variant + rec["n"] + 2 * rec["fault"]["at"] + len(rec["auth"]) + len(rec["fault"]["kind"])) % 6]
    c.sc = fa.Scenario(project="5f1a2b3c4d5e6f7a8b9c%04d" % (variant % 10000), cluster="Cluster%d" % (variant % 9),
                       conn_hosts=[hp for _, hp in c.names], payloads=payloads, auth=rec["auth"], faults=faults,
                       public=("pubKEY%d" % variant) if variant % 2 == 0 else ("mdb_sa_id_%024x" % variant),
                       private=private if variant % 2 == 0 else ("mdb_sa_sk_%s" % private), chunked=(variant % 3 == 2))
    c.prepare = None
    c.encrypt = False
    if not rec.get("keyOk", True):
        # --encrypt with a key file that exists but is unusable (or whose directory is missing)
        c.encrypt = True
        how = variant % 3

        def prepk(d, how=how):
            p = os.path.join(d, "enc.key")
            if how == 0:
                open(p, "w").write("this is not a key")
            elif how == 1:
                open(p, "wb").write(base64.b64encode(b"short"))
            else:
                os.mkdir(p)
        c.prepare = prepk
    if fk == "outfull":
        k = fat - 1

        def prepf(d, k=k):
            os.symlink("/dev/full", os.path.join(d, "out.log.%d" % k))
        c.prepare = prepf
    if fk == "outdir":
        k = fat - 1
        how = variant % 2

        def prep(d, k=k, how=how):
            p = os.path.join(d, "out.log.%d" % k)
            if how == 0:
                os.mkdir(p)
            else:
                os.symlink(os.path.join(d, "missing-dir", "x"), p)
        c.prepare = prep
    # the name given to --outputFile: plain, or with characters that mean something to a format string
    c.out_name = "out.log"
    if c.prepare is None and rec["cli"]:
        c.out_name = ["out.log", "cpu-100%.red%d.log", "out.log", "out %s.log"][variant % 4]
        if fk == "none" and variant % 4 == 0:
            # the bare <out> (created by the tool, never written in Atlas mode) is a link to a device that accepts no data
            def prepb(d):
                os.symlink("/dev/full", os.path.join(d, "out.log"))
            c.prepare = prepb
    return c


def expected_outputs(b, c, flags, workdir, keyfile=None):
    """<out>.<i> must be the redaction of host i's log under the active flags: the real CLI on the same bytes as a .gz file."""
    exp = {}
    for i, (h, _) in enumerate(c.names):
        tag = "exp%d" % i
        # the reference is the redaction of the log TEXT (how the archive is cut into gzip members is a transport detail); only when the
        # payload is not a complete archive of that text (a scripted damage) the archive itself is the input
        data, ext = c.payloads[h], ".log.gz"
        try:
            if gzip.decompress(c.payloads[h]) == c.plain[h]:
                data, ext = c.plain[h], ".log"
        except Exception:
            pass
        pth = os.path.join(workdir, tag + ext)
        with open(pth, "wb") as f:
            f.write(data)
        args = ["redact", pth] + list(flags)
        outp = None
        if keyfile:
            outp = os.path.join(workdir, tag + ".out")
            args += ["-o", outp, "--encrypt", "-q", keyfile]
        p = common.run_cli(b, args, cwd=workdir)
        if outp:
            exp[i] = (p.returncode, open(outp, "rb").read() if os.path.exists(outp) else b"")
            if os.path.exists(outp):
                os.remove(outp)
        else:
            exp[i] = (p.returncode, p.stdout)
        os.remove(pth)
    return exp


def make_tzif(path, transition, off_before, off_after):
    """A version-1 TZif file with one transition (a zone whose UTC offset changed at `transition`)."""
    import struct
    types = struct.pack(">ibB", off_before, 0, 0) + struct.pack(">ibB", off_after, 1, 4)
    abbr = b"AAA\x00BBB\x00"
    body = struct.pack(">i", int(transition)) + bytes([1]) + types + abbr
    head = b"TZif" + b"\x00" + b"\x00" * 15 + struct.pack(">6I", 0, 0, 0, 1, 2, len(abbr))
    with open(path, "wb") as f:
        f.write(head + body)


def run_case(b, c, workdir, flags=(), key_by="env", start=None, end=None, encrypt=False, extra_env=None):
    if c.rec["cli"]:
        obs = al.run_atlas_cli(b, c.sc, workdir, flags=flags, key_by=key_by, start=start, end=end, prepare=c.prepare, encrypt=encrypt or c.encrypt,
                               extra_env=extra_env, out_name=getattr(c, "out_name", "out.log"), tmp_missing=getattr(c, "tmp_missing", False))
        obs["level"] = "cli"
    else:
        obs = al.run_atlas_lib(b, c.sc, workdir, start=start or 1700000000, end=end or 1700600000, tmp_missing=getattr(c, "tmp_missing", False))
        obs["level"] = "lib"
    return obs


def events_of(c, obs, complete_outs):
    rec = c.rec
    idx = {h: i for i, (h, _) in enumerate(c.names, 1)}
    ev = [{"ev": "Init", "n": rec["n"], "auth": rec["auth"], "fault": rec["fault"], "cli": rec["cli"], "keyOk": rec.get("keyOk", True)}]
    for r in obs["requests"]:
        t = 0 if r.get("kind") == "cluster" else idx.get(r.get("host"), 99)
        ev.append({"ev": "Req", "t": t, "authed": bool(r.get("authorization")), "tmp": len(r.get("tmp") or [])})
    if obs["level"] == "cli":
        code = obs["rc"] if obs["rc"] in (0, 1) else 2
        ev.append({"ev": "End", "exit": code, "tmp": len(obs["tmp_left"]), "outs": complete_outs})
    else:
        ev.append({"ev": "End", "exit": 2 if obs.get("panic") else 1 if obs.get("failed") else 0, "tmp": len(obs["tmp_left"]), "outs": 0})
    return ev


def key_forms(private, public):
    forms = {"verbatim": private, "url-quoted": urllib.parse.quote(private, safe=""), "url-quote-plus": urllib.parse.quote_plus(private),
             "base64": base64.b64encode(private.encode()).decode(), "base64url": base64.urlsafe_b64encode(private.encode()).decode().rstrip("="),
             "basic(pub:priv)": base64.b64encode((public + ":" + private).encode()).decode(),
             "hex": private.encode().hex()}
    forms["base64-nopad"] = forms["base64"].rstrip("=")
    # JSON / Go %q escaped form
    forms["json-escaped"] = json.dumps(private)[1:-1]
    forms["json-ascii-escaped"] = json.dumps(private, ensure_ascii=True)[1:-1]
    # short encodings are dropped (chance hits) - except the key itself, which is searched for verbatim from four characters on
    return {k: v for k, v in forms.items() if len(v) >= 6 or (k == "verbatim" and len(v) >= 4)}


def scan_for_key(c, obs):
    """Every artefact of the run scanned for the private key in several encodings. Returns list of (artefact, form)."""
    forms = key_forms(c.sc.private, c.sc.public)
    arts = []
    for r in obs["requests"]:
        arts.append(("request #%d head" % r.get("n", 0), r.get("raw_head", "").encode("latin-1", "replace")))
    for i, cn in enumerate(obs.get("connects", [])):
        arts.append(("proxy CONNECT #%d" % i, json.dumps(cn).encode()))
    if obs["level"] == "cli":
        arts.append(("stdout", obs["stdout"]))
        arts.append(("stderr", obs["stderr"]))
        for n, data in obs["files"].items():
            arts.append(("file " + n, data))
    else:
        arts.append(("returned error", (obs.get("err") or "").encode("utf-8", "replace")))
    hits = []
    for name, data in arts:
        for fname, fv in forms.items():
            for enc in ("utf-8", "latin-1"):
                try:
                    needle = fv.encode(enc)
                except UnicodeEncodeError:
                    continue
                if needle in data:
                    hits.append((name, fname))
                    break
    return hits
