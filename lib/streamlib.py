"""Run-level (L2) conformance machinery for spec/Stream.tla: concrete line pool, concretisation of TLC records,
drivers (in-process fault-injecting stream driver, the real CLI over its input/output channels), expected outputs
("each line processed on its own"), and recording of executions as traces for spec/StreamTrace.tla."""
import base64, gzip, hashlib, io, json, os, random, re, subprocess, tempfile, zlib
import common, jsonx

NS = "dbZn.collZn"

# ------------------------------------------------------------------ line pool
_T = {"$date": "2025-05-30T09:47:39.001+00:00"}


def _cmd(idn, comp, msg, attr):
    return {"t": _T, "s": "I", "c": comp, "id": idn, "ctx": "conn%d" % (idn % 97), "msg": msg, "attr": attr}


def _cmd_templates():
    """Command-bearing lines of several verbs; literals, namespaces and field names repeat across lines on purpose
    (state carried from line to line - a cache, a reused buffer - shows only then)."""
    f = {"name": "Alice Example", "email": "alice@example.com", "age": {"$gt": 41.5}, "ok": True,
         "tags": {"$in": ["red", "grün", "a\"q\\b"]}, "when": {"$date": "2024-02-29T12:00:00Z"},
         "_id": {"$oid": "65f1a2b3c4d5e6f708192a3b"}, "nil": None}
    T = []
    T.append(("COMMAND", "Slow query", {"type": "command", "ns": NS, "remote": "203.0.113.9:40008", "command": {
        "find": "collZn", "filter": f, "sort": {"age": -1}, "limit": 5, "$db": "dbZn"},
        "planSummary": "IXSCAN { name: 1, age: -1 }", "keysExamined": 43, "durationMillis": 1201}))
    T.append(("COMMAND", "Slow query", {"type": "command", "ns": NS, "command": {
        "aggregate": "collZn", "pipeline": [{"$match": {"name": "Alice Example", "n": 7}},
                                            {"$lookup": {"from": "other", "localField": "a", "foreignField": "b", "as": "j",
                                                         "pipeline": [{"$match": {"$expr": {"$eq": ["$x", "lit"]}}}]}},
                                            {"$group": {"_id": "$name", "c": {"$sum": 1}}}, {"$limit": 10}], "$db": "dbZn"},
        "planSummary": "COLLSCAN", "nreturned": 3}))
    T.append(("WRITE", "Slow query", {"type": "update", "ns": NS, "command": {
        "q": {"email": "bob@example.org", "n": {"$lte": 9007199254740993}}, "u": {"$set": {"name": "Bob", "flag": False}},
        "multi": False, "upsert": True}, "planSummary": "IXSCAN { email: 1 }"}))
    T.append(("COMMAND", "Slow query", {"type": "command", "ns": NS, "command": {
        "update": "collZn", "updates": [{"q": {"k": "v1"}, "u": {"$inc": {"cnt": 2}}}, {"q": {"k": "v2"}, "u": [{"$set": {"z": "w"}}]}],
        "ordered": True, "$db": "dbZn"}}))
    T.append(("COMMAND", "Slow query", {"type": "command", "ns": NS, "command": {
        "insert": "collZn", "documents": [{"name": "Carol", "card": "4111111111111111", "nested": {"a": [1, "two", {"b": None}]}}],
        "ordered": True, "$db": "dbZn"}}))
    T.append(("COMMAND", "Slow query", {"type": "command", "ns": NS, "command": {
        "delete": "collZn", "deletes": [{"q": {"name": {"$regex": "^Al", "$options": "i"}}, "limit": 0}], "$db": "dbZn"}}))
    T.append(("COMMAND", "Slow query", {"type": "command", "ns": NS, "command": {"getMore": 7469113720208097282, "collection": "collZn", "$db": "dbZn"},
                                        "originatingCommand": {"find": "collZn", "filter": {"name": "Alice Example"}, "$db": "dbZn"}}))
    T.append(("QUERY", "Plan executor error during find command", {"error": {"code": 96, "errmsg": "boom"}, "stats": {},
                                                                    "cmd": {"find": "collZn", "filter": {"ssn": "078-05-1120"}, "$db": "dbZn"}, "ns": NS}))
    T.append(("COMMAND", "Slow query", {"type": "command", "ns": "other.coll", "command": {
        "aggregate": "coll", "pipeline": [{"$search": {"index": "default", "text": {"query": "secret words", "path": "title"}}},
                                          {"$project": {"title": 1}}], "$db": "other"}}))
    T.append(("COMMAND", "Slow query", {"type": "command", "ns": NS, "command": {
        "findAndModify": "collZn", "query": {"uuid": {"$binary": {"base64": "c2VjcmV0IGJ5dGVzIQ==", "subType": "04"}}},
        "update": {"$push": {"log": {"$each": ["x", "y"]}}}, "new": True, "$db": "dbZn"}}))
    return T


def _oth_templates():
    return [
        ("NETWORK", "Connection accepted", {"remote": "198.51.100.7:51234", "connectionId": 12, "connectionCount": 3}),
        ("ASIO", "Connecting", {"hostAndPort": "cluster0-shard-00-01.ab1cd.mongodb.net:27017"}),
        ("-", "Multi threading initialized", None),
        ("STORAGE", "WiredTiger message", {"message": {"ts_sec": 1748598459, "ts_usec": 1201, "thread": "1:0x7f", "msg": "checkpoint \"x\" \\ done"},
                                            "big": 18446744073709551615, "exp": "1E5", "arr": [[{"k": 1}], [], None]}),
        ("REPL", "Slow query", {"type": "none", "ns": "local.oplog.rs", "durationMillis": 100}),
        # kept strings holding what another serialiser's escapes look like when they are data (backslash + u003c ...), '%' verbs, a lone backslash at the end
        ("ACCESS", "Successfully authenticated", {"client": "10.0.0.9:1", "doc": "{\"a\":\"x\\u003cb\\u003e\\u0026\"}", "note": "100%s %d%% \\u0026 \\", "<tag>": "a<b>&c"}),
    ]


def _dumps(o):
    return json.dumps(o, separators=(",", ":"), ensure_ascii=False)


class Pool:
    """Concrete lines per abstract kind. The top-level numeric id of an object line is unique per (pool entry, position in
    the sequence), so that an output line maps back to exactly one input line."""

    def __init__(self, seed=1, fixtures=True):
        self.rng = random.Random(seed)
        self.cmd = _cmd_templates()
        self.oth = _oth_templates()
        self.fix = []
        fdir = os.path.join(common.REPO, "test_fixtures")
        if fixtures and os.path.isdir(fdir):
            for fn in sorted(os.listdir(fdir)):
                if not fn.endswith(".json") or fn.startswith("cluster-info"):
                    continue
                try:
                    t = jsonx.parse(open(os.path.join(fdir, fn), encoding="utf-8").read())
                    if t[0] == 'obj' and any(k == "id" for k, _ in t[1]):
                        self.fix.append(t)
                except Exception:
                    pass

    def obj_line(self, kind, choice, idn):
        if kind in ("cmd", "padded"):
            n = len(self.cmd) + len(self.fix)
            c = choice % n
            if c < len(self.cmd):
                comp, msg, attr = self.cmd[c]
                s = _dumps(_cmd(idn, comp, msg, attr))
            else:
                t = self.fix[c - len(self.cmd)]
                s = jsonx.dumps(('obj', [(k, ('num', str(idn)) if k == "id" else v) for k, v in t[1]]))
        else:
            comp, msg, attr = self.oth[choice % len(self.oth)]
            d = _cmd(idn, comp, msg, attr)
            if attr is None:
                del d["attr"]
            s = _dumps(d)
        if kind == "padded":
            pad = [("  ", " "), ("\t", "\t \t"), (" ", "")][choice % 3]
            s = pad[0] + s + pad[1]
        return s

    def junk_line(self, kind, choice, idn):
        tok = "RAWTEXT%dq" % idn
        if kind == "blank":
            return ""
        if kind == "ws":
            return ["   ", "\t", " \t  "][choice % 3]
        if kind == "txt":
            if choice % 8 == 6:
                # a UTF-8 byte order mark in front of an object line (JSON does not allow one): not a JSON object line on any channel
                return "\ufeff" + self.obj_line("cmd", choice, idn)
            if choice % 8 == 7:
                return "\ufeff"
            return ["plain text %s with secret alice@example.com" % tok, "%s {not json" % tok, "}{ %s" % tok, "\"%s" % tok,
                    "{\"a\":%s}" % tok, "nul %s" % tok][choice % 8]
        if kind == "legacy":
            return "2024-05-30T09:47:39.001+0000 I COMMAND  [conn%d] command dbZn.collZn command: find { find: \"collZn\", filter: { name: \"%s\" } } 120ms" % (idn, tok)
        if kind == "arr":
            return ["[{\"id\":%d,\"c\":\"COMMAND\",\"x\":\"%s\"}]" % (idn, tok), "[]", "[1,2,\"%s\"]" % tok][choice % 3]
        if kind == "scalar":
            return ["\"%s\"" % tok, "12345", "true", "null", "-0.5e3"][choice % 5]
        if kind == "trunc":
            full = self.obj_line("cmd" if (choice // 8) % 2 == 0 else "oth", choice, idn)
            a = full.find('"attr"')
            cut = [len(full) - 1, len(full) // 2, len(full) - 3, 1, (a - 1) if a > 1 else len(full) // 3, len(full) - 2][choice % 6]
            return full[:cut]
        if kind == "trail":
            full = self.obj_line("cmd" if (choice // 8) % 2 == 0 else "oth", choice, idn)
            return full + [" x%s" % tok, "{}", "}", ",1", " []"][choice % 5]
        if kind == "long":
            full = self.obj_line("cmd", choice, idn)
            # a *valid* object line above the scanner's 64 KiB limit
            filler = "L" * (70000 + (choice % 3) * 30000)
            return full[:-1] + ",\"pad\":\"%s\"}" % filler
        raise ValueError(kind)

    def line(self, kind, choice, idn):
        if kind in ("cmd", "oth", "padded"):
            return self.obj_line(kind, choice, idn)
        return self.junk_line(kind, choice, idn)


OBJ_KINDS = ("cmd", "oth", "padded")
KIND_CODE = {k: i for i, k in enumerate(("cmd", "oth", "padded", "blank", "ws", "txt", "arr", "scalar", "trunc", "trail", "legacy", "long"))}


def concretise(pool, kinds, variant, seq_no):
    """kinds: list of abstract kinds -> list of (kind, text, idn). Deterministic in (variant, seq_no)."""
    rng = random.Random((variant * 1000003) ^ (seq_no * 7919))
    out = []
    same = rng.randrange(64)
    for i, k in enumerate(kinds):
        # variant 0: the same pool entry at every position (repetition); others: random entries
        choice = same if variant == 0 else rng.randrange(64)
        # the id depends on (pool entry, position, kind) only: few distinct texts (cheap single-line runs), unique per position
        idn = 1000000 + choice * 1000 + i * 20 + KIND_CODE.get(k, 19)
        out.append((k, pool.line(k, choice, idn), idn))
    return out


def file_bytes(lines, final_nl, crlf):
    """lines: list of (kind, text, idn). A last blank line without final newline is a lone CR (see Stream.tla EnvOK)."""
    eol = "\r\n" if crlf else "\n"
    parts = []
    for i, (k, t, _) in enumerate(lines):
        last = i == len(lines) - 1
        if last and not final_nl:
            parts.append("\r" if k == "blank" else t)
        else:
            parts.append(t + eol)
    return "".join(parts).encode("utf-8")


def is_object_line(text):
    """Judge-side classification, independent of the Go parser: exactly one JSON object (surrounding blanks allowed)."""
    try:
        return jsonx.parse(text)[0] == 'obj'
    except Exception:
        return False


# ------------------------------------------------------------------ flag sets
class SCfg:
    def __init__(self, name, flags, opts):
        self.name, self.flags, self.opts = name, list(flags), dict(opts)


def stream_cfgs(which="basic"):
    c = [SCfg("plain", [], {}),
         SCfg("all", ["-n", "-b", "-i", "-w", "-r", "Rr"], {"numbers": True, "booleans": True, "ips": True, "namespaces": True, "replacement": "Rr"})]
    if which != "basic":
        c += [SCfg("eager", ["-f", NS, "-w"], {"eager": [NS], "namespaces": True}),
              SCfg("sel", ["-z", "^(name|email)$"], {"regexp": "^(name|email)$"})]
    return c


# ------------------------------------------------------------------ drivers
def inproc_stream(b, reqs, timeout=3600):
    """reqs: list of dicts for the `stream` op of the overlay driver. Returns the list of results (dict or {'panic':..})."""
    ans = common.run_inproc(b, [{"op": "stream", "args": r} for r in reqs], timeout=timeout)
    out = []
    for a in ans:
        if a.get("panic") is not None:
            out.append({"panic": a["panic"]})
        elif a.get("unsupported"):
            raise common.Infra("overlay driver has no `stream` op")
        else:
            out.append(a["result"])
    return out


def cli_channel_run(b, data, cfg, in_ch, out_ch, workdir, tag, extra_env=None, timeout=120, prefill=None):
    """One real CLI run. in_ch: file | gz | stdin ; out_ch: stdout | file. Returns dict(rc, out (bytes), stderr, stdout)."""
    args = ["redact"]
    stdin_data = None
    inp = None
    if in_ch == "file":
        inp = os.path.join(workdir, "in-%s.log" % tag)
        with open(inp, "wb") as f:
            f.write(data)
        args.append(inp)
    elif in_ch in ("gz", "gzmulti"):
        inp = os.path.join(workdir, "in-%s.log.gz" % tag)
        with open(inp, "wb") as f:
            if in_ch == "gzmulti":
                # the same bytes as an archive of several members (what `cat a.gz b.gz` or a rotating writer produces), cut at line ends
                cuts = [i + 1 for i, ch in enumerate(data) if ch == 10]
                pts = [0] + [c for j, c in enumerate(cuts) if j % max(1, len(cuts) // 3) == 0 and c < len(data)] + [len(data)]
                if len(data) % 2 == 1:
                    # ... or (every other input) a few bytes into the next line: member boundaries are not line boundaries
                    pts = [p if p in (0, len(data)) else min(len(data), p + 7) for p in pts]
                pts = sorted(set(pts))
                for a, b2 in zip(pts, pts[1:]):
                    f.write(gzip.compress(data[a:b2], mtime=0))
                if len(pts) < 2:
                    f.write(gzip.compress(data, mtime=0))
            else:
                f.write(gzip.compress(data, mtime=0))
        args.append(inp)
    else:
        stdin_data = data
    args += cfg.flags
    outp = None
    if out_ch == "file":
        outp = os.path.join(workdir, "out-%s.log" % tag)
        args += ["-o", outp]
        if prefill is not None:
            with open(outp, "wb") as f:      # an older, longer output already sits at the path: it must be replaced, not overwritten in place
                f.write(prefill)
    p = common.run_cli(b, args, stdin_data=stdin_data, env=extra_env, timeout=timeout, cwd=workdir)
    if outp:
        try:
            with open(outp, "rb") as f:
                out = f.read()
            os.remove(outp)
        except OSError:
            out = None
    else:
        out = p.stdout
    if inp:
        os.remove(inp)
    return {"rc": p.returncode, "out": out, "stderr": p.stderr.decode("utf-8", "replace"), "stdout": p.stdout}


class Singles:
    """`what that line yields when processed on its own`: every distinct concrete line alone through the real CLI
    (file -> stdout, LF, final newline), per flag set; cached."""

    def __init__(self, b, workdir):
        self.b, self.workdir, self.cache = b, workdir, {}

    def need(self, cfg, texts):
        todo = sorted(set(t for t in texts if (cfg.name, t) not in self.cache))
        enc = "--encrypt" in cfg.flags      # needs file output; the key file is created by the first run (serially)

        def one(t):
            tag = hashlib.sha1((cfg.name + t).encode("utf-8", "replace")).hexdigest()[:16]
            r = cli_channel_run(self.b, (t + "\n").encode("utf-8"), cfg, "file", "file" if enc else "stdout", self.workdir, "s" + tag)
            return t, r
        if enc and todo:
            t0, r0 = one(todo[0])
            self.cache[(cfg.name, t0)] = r0
            todo = todo[1:]
        for t, r in common.parallel_map(one, todo):
            self.cache[(cfg.name, t)] = r

    def get(self, cfg, text):
        return self.cache[(cfg.name, text)]


# ------------------------------------------------------------------ traces for StreamTrace.tla
def split_writes(out_bytes, writes):
    """Splits the output into the byte strings of the individual Write calls."""
    chunks, p = [], 0
    for n in writes:
        chunks.append(out_bytes[p:p + n])
        p += n
    return chunks


_ID_RE = re.compile(rb'"id":\s*(\d+)')


def line_index_of(chunk, ids):
    """Maps one written chunk to the 1-based index of the input line it belongs to (by the untouched top-level id)."""
    m = _ID_RE.search(chunk)
    if not m:
        return 0
    try:
        return ids.index(int(m.group(1))) + 1
    except ValueError:
        return 0


def trace_events(env, chunks, ids, status, short_tail=False):
    """env: the Init record (input kinds, finalNL, bar, wr, rd). chunks: bytes per Write call that *delivered* bytes.
    A chunk that is a whole line (ends with a newline) is an Emit event; a partial one a ShortWrite event."""
    ev = [dict(env, ev="Init")]
    for c in chunks:
        if c.endswith(b"\n"):
            ev.append({"ev": "Emit", "line": line_index_of(c, ids)})
        else:
            ev.append({"ev": "ShortWrite", "line": line_index_of(c, ids)})
    ev.append({"ev": "End", "status": status})
    return ev


def validate_traces(traces, module="StreamTrace", cfg="StreamTrace.cfg", timeout=900, max_rounds=12):
    """traces: list of event lists. Runs TLC on the trace module over the concatenation; a rejected trace is localised by
    the high-water mark, removed, and the rest is validated again. Returns (accepted_count, rejected: list of
    (trace index, event index, event)), states explored."""
    rejected = []
    alive = list(range(len(traces)))
    states = 0
    for _ in range(max_rounds):
        if not alive:
            break
        lines, owner = [], []
        for ti in alive:
            for ei, e in enumerate(traces[ti]):
                lines.append(json.dumps(e))
                owner.append((ti, ei))
        text = "\n".join(lines) + "\n"
        r = common.run_tlc(module, cfg, workers=1, timeout=timeout, files={"trace.ndjson": text}, want_records=True, heap="4g")
        states += r.distinct
        m = re.search(r'HIGHWATER", (\d+)', r.out)
        hw = int(m.group(1)) if m else None
        if hw is None:
            # an invariant failed inside a trace: the last state of the counterexample says how far the log was consumed
            ls = re.findall(r"^/\\ l = (\d+)", r.out, flags=re.M)
            if ls and not r.ok:
                hw = max(1, int(ls[-1]) - 1)
        if "violated by the initial state" in r.out:
            raise common.Infra("trace module: an invariant fails in the initial state\n" + r.out[-800:])
        if hw is None:
            raise common.Infra("trace validation gave no verdict: %s\n%s" % (r.violation, r.out[-1200:]))
        if hw > len(lines):
            return len(alive), rejected, states
        ti, ei = owner[hw - 1]
        rejected.append((ti, ei, traces[ti][ei], (r.violation or "")[:200]))
        alive.remove(ti)
    return len(alive), rejected, states


# ------------------------------------------------------------------ TLC side
def stream_params(kinds, maxlen, wrkinds=("none",), rd_on=False, bars=(True, False)):
    q = lambda xs: "{" + ", ".join('"%s"' % x for x in xs) + "}"
    return ("---- MODULE StreamParams ----\nSKinds == %s\nSMaxLen == %d\nSWrKinds == %s\nSRdOn == %s\nSBar == {%s}\n====\n" %
            (q(kinds), maxlen, q(wrkinds), "TRUE" if rd_on else "FALSE", ", ".join("TRUE" if x else "FALSE" for x in bars)))


def run_stream_mc(kinds, maxlen, wrkinds=("none",), rd_on=False, bars=(True, False), timeout=1200, simulate=None, depth=None, seed=None,
                  coverage=False):
    r = common.run_tlc("StreamMC", "StreamMC.cfg", timeout=timeout, files={"StreamParams.tla": stream_params(kinds, maxlen, wrkinds, rd_on, bars)},
                       simulate=simulate, depth=depth, seed=seed, coverage=coverage)
    if not r.ok:
        raise common.Infra("TLC on StreamMC failed: %s\n%s" % (r.violation, r.out[-1500:]))
    return r


def env_of(rec):
    return {"input": rec["input"], "finalNL": rec["finalNL"], "bar": rec["bar"], "wr": rec["wr"], "rd": rec["rd"]}


def out_lines(out_bytes):
    """Splits output bytes into complete lines (with their newline) and a trailing partial chunk."""
    parts = out_bytes.split(b"\n")
    whole = [p + b"\n" for p in parts[:-1]]
    return whole, parts[-1]


def events_from_output(env, out_bytes, ids, status):
    whole, rest = out_lines(out_bytes or b"")
    chunks = list(whole) + ([rest] if rest else [])
    return trace_events(env, chunks, ids, status)


def line_offsets(lines, final_nl, crlf):
    """Byte offset at which each line starts in file_bytes(...), plus the total length."""
    offs, p = [], 0
    eol = 2 if crlf else 1
    for i, (k, t, _) in enumerate(lines):
        offs.append(p)
        last = i == len(lines) - 1
        if last and not final_nl:
            p += 1 if k == "blank" else len(t.encode("utf-8"))
        else:
            p += len(t.encode("utf-8")) + eol
    return offs, p
