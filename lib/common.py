"""Shared infrastructure for the /verif checks: scratch space, builder, drivers, TLC runner,
evidence / replay / known-findings handling.  Standard library only."""
import atexit, base64, hashlib, json, os, random, re, shutil, signal, subprocess, sys, tempfile, time

VERIF = os.path.dirname(os.path.dirname(os.path.abspath(__file__)))
REPO = os.environ.get("VERIF_REPO", "/repo")
# where evidence/ and replays/ are written: /verif itself, except for trial runs against seeded changes (bin/mutant-wt)
OUT = os.environ.get("VERIF_OUT", VERIF)
SCRATCH_ROOT = os.environ.get("VERIF_SCRATCH_ROOT", "/var/tmp/verif-scratch")
NCPU = max(1, min(16, os.cpu_count() or 1))
# the judge's own JSON reader / tree walks are recursive; the depth ladders go to 1000 levels (x 3 frames per level)
sys.setrecursionlimit(max(sys.getrecursionlimit(), 30000))


class Infra(Exception):
    """Anything that prevents a decision: exit status 2, never a violation."""


def log(*a):
    print(*a, file=sys.stderr, flush=True)


# ------------------------------------------------------------------ scratch
_scratch_dirs = []
_OWNER = os.getpid()


def _cleanup():
    if os.getpid() != _OWNER:
        return          # a forked worker must never remove its parent's scratch (build) directories
    for d in _scratch_dirs:
        shutil.rmtree(d, ignore_errors=True)


atexit.register(_cleanup)


def _on_signal(signum, frame):
    _cleanup()
    os._exit(2)


for _s in (signal.SIGTERM, signal.SIGINT, signal.SIGHUP):
    try:
        signal.signal(_s, _on_signal)
    except Exception:
        pass


def new_scratch(tag="s"):
    os.makedirs(SCRATCH_ROOT, exist_ok=True)
    d = tempfile.mkdtemp(prefix="%s-%d-" % (tag, os.getpid()), dir=SCRATCH_ROOT)
    os.chmod(d, 0o755)
    _scratch_dirs.append(d)
    return d


# ------------------------------------------------------------------ builder
def go_env():
    env = dict(os.environ)
    for k in ("GOSUMDB", "GONOSUMDB", "GONOSUMCHECK", "GOFLAGS", "GOTOOLCHAIN", "GONOPROXY", "GOPRIVATE", "GOINSECURE"):
        env.pop(k, None)
    env.update(GOFLAGS="-mod=mod", GOPROXY="off", GOTOOLCHAIN="auto", CGO_ENABLED="0")
    return env


class Build:
    def __init__(self, root, cli, inproc, inproc_files):
        self.root, self.cli, self.inproc, self.inproc_files = root, cli, inproc, inproc_files
        self.ops = set()


def build(need_inproc=True):
    """rsync /repo's *working tree* into scratch, build the unmodified CLI and the overlay driver."""
    root = new_scratch("build")
    src = os.path.join(root, "repo")
    r = subprocess.run(["rsync", "-a", "--delete", "--exclude", ".git", "--exclude", "dist", REPO + "/", src + "/"],
                       capture_output=True, text=True)
    if r.returncode != 0:
        raise Infra("rsync of %s failed: %s" % (REPO, r.stderr[-400:]))
    env = go_env()
    cli = os.path.join(root, "anonymongo")
    r = subprocess.run(["go", "build", "-o", cli, "./src"], cwd=src, env=env, capture_output=True, text=True)
    if r.returncode != 0:
        raise Infra("go build of the working tree failed:\n" + r.stderr[-2000:])
    b = Build(root, cli, None, [])
    if need_inproc:
        over = os.path.join(VERIF, "harness", "inproc")
        files = sorted(f for f in os.listdir(over) if f.endswith("_test.go"))
        core = [f for f in files if f.startswith("vcore")]
        feats = [f for f in files if not f.startswith("vcore")]

        def attempt(sel):
            for f in files:
                p = os.path.join(src, "src", f)
                if os.path.exists(p):
                    os.remove(p)
            for f in sel:
                shutil.copy(os.path.join(over, f), os.path.join(src, "src", f))
            out = os.path.join(root, "inproc.test")
            rr = subprocess.run(["go", "test", "-tags", "verif", "-vet=off", "-c", "-o", out, "./src"],
                                cwd=src, env=env, capture_output=True, text=True)
            return (out if rr.returncode == 0 else None), rr.stderr

        out, err = attempt(core + feats)
        sel = core + feats
        if out is None:
            log("INFO overlay driver did not compile as a whole; trying feature files one by one")
            ok = []
            for f in feats:
                o, _ = attempt(core + [f])
                if o:
                    ok.append(f)
            out, err = attempt(core + ok)
            sel = core + ok
        if out is not None:
            b.inproc, b.inproc_files = out, sel
            try:
                b.ops = set(run_inproc(b, [{"op": "ops"}])[0]["result"])
            except Exception as e:  # pragma: no cover
                log("INFO in-process driver unusable: %s" % e)
                b.inproc = None
        else:
            log("INFO in-process driver unavailable:\n" + err[-1500:])
    return b


def run_inproc(b, requests, timeout=3600):
    if not b.inproc:
        raise Infra("in-process driver not available")
    d = tempfile.mkdtemp(prefix="ipc-", dir=b.root)
    req, resp = os.path.join(d, "req"), os.path.join(d, "resp")
    with open(req, "w") as f:
        for r in requests:
            f.write(json.dumps(r) + "\n")
    env = dict(os.environ, VERIF_REQ=req, VERIF_RESP=resp)
    p = subprocess.run([b.inproc, "-test.run", "^TestVerifDriver$", "-test.timeout", "0"], env=env,
                       capture_output=True, text=True, timeout=timeout, cwd=d)
    out = []
    if os.path.exists(resp):
        with open(resp) as f:
            for line in f:
                out.append(json.loads(line))
    if len(out) != len(requests):
        raise Infra("in-process driver answered %d of %d requests (exit %s): %s" %
                    (len(out), len(requests), p.returncode, (p.stdout + p.stderr)[-800:]))
    shutil.rmtree(d, ignore_errors=True)
    return out


def run_cli(b, args, stdin_data=None, stdin_devnull=True, env=None, cwd=None, timeout=600, preexec_fn=None):
    """Run the real binary. stdin: bytes => pipe; None => /dev/null (a character device = 'not piped')."""
    e = dict(os.environ)
    for k in ("ATLAS_PUBLIC_KEY", "ATLAS_PRIVATE_KEY", "ANONYMONGO_VERSION", "HTTPS_PROXY", "HTTP_PROXY", "https_proxy",
              "http_proxy", "SSL_CERT_FILE"):
        e.pop(k, None)
    if env:
        e.update(env)
    kw = {}
    if stdin_data is not None:
        kw["input"] = stdin_data
    else:
        kw["stdin"] = subprocess.DEVNULL
    try:
        p = subprocess.run([b.cli] + list(args), capture_output=True, env=e, cwd=cwd, timeout=timeout,
                           preexec_fn=preexec_fn, **kw)
    except subprocess.TimeoutExpired:
        raise Infra("CLI timed out: %r" % (args,))
    return p


# ------------------------------------------------------------------ TLC
TLC_JAR = "/opt/veriftools/tla/tla2tools.jar:/opt/veriftools/tla/CommunityModules-deps.jar"


class TlcResult:
    def __init__(self):
        self.generated = self.distinct = 0
        self.depth = 0
        self.ok = False
        self.violation = None
        self.records = []
        self.out = ""
        self.wall = 0.0
        self.coverage_zero = []


def run_tlc(module, cfg, workers=None, timeout=900, extra=(), defines=None, sink=None, files=None,
            heap="8g", want_records=True, simulate=None, depth=None, seed=None, coverage=False, stack="512m"):
    """Run TLC on spec/<module>.tla with spec/<cfg> in a scratch copy of spec/.
    `defines`: dict name -> TLA+ text, written into VerifParams.tla as operator definitions (the MC
    modules EXTEND it), so bounds are chosen by the check without editing committed files.
    PrintT'ed JSON records (lines starting with '{"' or quoted) are collected (or streamed to sink)."""
    d = new_scratch("tlc")
    specdir = os.path.join(VERIF, "spec")
    for f in os.listdir(specdir):
        if f.endswith((".tla", ".cfg")):
            shutil.copy(os.path.join(specdir, f), d)
    for name, content in (files or {}).items():
        with open(os.path.join(d, name), "w") as f:
            f.write(content)
    if defines is not None:
        with open(os.path.join(d, "VerifParams.tla"), "w") as f:
            f.write("---- MODULE VerifParams ----\n")
            for k, v in defines.items():
                f.write("%s == %s\n" % (k, v))
            f.write("====\n")
    workers = workers or NCPU
    cmd = ["java", "-XX:+UseParallelGC", "-Xmx" + heap, "-Xss" + stack, "-Djava.io.tmpdir=" + d, "-cp", TLC_JAR, "tlc2.TLC",
           "-workers", str(workers), "-metadir", os.path.join(d, "meta"), "-config", cfg, "-noGenerateSpecTE"]
    if simulate:
        cmd += ["-simulate", "num=%d" % simulate]
        if depth:
            cmd += ["-depth", str(depth)]
        if seed is not None:
            cmd += ["-seed", str(seed)]
    if coverage:
        cmd += ["-coverage", "1"]
    cmd += list(extra) + [module]
    t0 = time.time()
    res = TlcResult()
    env = dict(os.environ)
    env.pop("JAVA_TOOL_OPTIONS", None)
    p = subprocess.Popen(cmd, cwd=d, stdout=subprocess.PIPE, stderr=subprocess.STDOUT, text=True, env=env,
                         errors="replace")
    outl = []
    deadline = t0 + timeout
    import threading
    timer = threading.Timer(timeout, lambda: p.kill())
    timer.start()
    try:
        for line in p.stdout:
            if line.startswith('"{') or line.startswith('{"'):
                s = line.strip()
                if s.startswith('"'):
                    try:
                        s = json.loads(s)
                    except Exception:
                        outl.append(line)
                        continue
                try:
                    rec = json.loads(s)
                except Exception:
                    outl.append(line)
                    continue
                if sink is not None:
                    sink(rec)
                elif want_records:
                    res.records.append(rec)
            else:
                outl.append(line)
        p.wait()
    finally:
        timer.cancel()
    res.wall = time.time() - t0
    res.out = "".join(outl)
    if time.time() >= deadline and p.returncode != 0 and "Model checking completed" not in res.out:
        shutil.rmtree(d, ignore_errors=True)
        raise Infra("TLC timed out after %ds on %s/%s" % (timeout, module, cfg))
    m = re.search(r"(\d+) states generated, (\d+) distinct states found", res.out)
    if m:
        res.generated, res.distinct = int(m.group(1)), int(m.group(2))
    m = re.search(r"depth of the complete state graph search is (\d+)", res.out)
    if m:
        res.depth = int(m.group(1))
    res.ok = ("Model checking completed. No error has been found" in res.out) or \
             (simulate is not None and "Error:" not in res.out and p.returncode == 0)
    if not res.ok:
        m = re.search(r"Error: (Invariant (\S+) is violated|Action property (\S+) is violated|Temporal properties were violated|"
                      r"Deadlock reached|The postcondition .* is violated.*|Evaluating assertion.*|.*)", res.out)
        res.violation = m.group(0) if m else "TLC exit %s" % p.returncode
    if coverage:
        res.coverage_zero = re.findall(r"^\s*<(\w+) line[^>]*>: 0:0", res.out, flags=re.M)
    shutil.rmtree(d, ignore_errors=True)
    return res


def run_tlapm(module, timeout=900):
    """Checks spec/proofs/<module>.tla with the TLA+ proof system in a scratch copy of the specification.  Returns the number of proof
    obligations; anything but 'All N obligations proved' is INFRA (a proof speaks about the specification, never about the code)."""
    d = new_scratch("tlapm")
    specdir = os.path.join(VERIF, "spec")
    for sub in (specdir, os.path.join(specdir, "proofs")):
        for f in os.listdir(sub):
            if f.endswith(".tla"):
                shutil.copy(os.path.join(sub, f), d)
    try:
        p = subprocess.run(["tlapm", "--threads", str(NCPU), "--cleanfp", module + ".tla"], cwd=d, capture_output=True, text=True,
                           timeout=timeout, errors="replace")
        out = p.stdout + p.stderr
    except FileNotFoundError:
        shutil.rmtree(d, ignore_errors=True)
        raise Infra("tlapm is not installed")
    except subprocess.TimeoutExpired:
        shutil.rmtree(d, ignore_errors=True)
        raise Infra("tlapm timed out after %ds on %s" % (timeout, module))
    shutil.rmtree(d, ignore_errors=True)
    m = re.search(r"All (\d+) obligations? proved", out)
    if p.returncode != 0 or not m:
        raise Infra("tlapm could not check %s:\n%s" % (module, out[-1500:]))
    return int(m.group(1))


def sany(module):
    d = new_scratch("sany")
    specdir = os.path.join(VERIF, "spec")
    for f in os.listdir(specdir):
        if f.endswith(".tla"):
            shutil.copy(os.path.join(specdir, f), d)
    if not os.path.exists(os.path.join(d, "VerifParams.tla")):
        pass
    p = subprocess.run(["java", "-Djava.io.tmpdir=" + d, "-cp", TLC_JAR, "tla2sany.SANY", module], cwd=d, capture_output=True, text=True)
    shutil.rmtree(d, ignore_errors=True)
    return p.returncode == 0 and "Semantic errors" not in p.stdout and "*** Errors" not in p.stdout, p.stdout + p.stderr


# ------------------------------------------------------------------ evidence / verdicts
def seed_from_env():
    try:
        return int(os.environ.get("VERIF_SEED", "1"))
    except ValueError:
        return 1


def load_known_findings():
    p = os.path.join(VERIF, "known_findings.json")
    if not os.path.exists(p):
        return {"findings": [], "fixed": []}
    with open(p) as f:
        return json.load(f)


class Verdict:
    """Collects violations / known findings / drift for one property run and writes evidence."""

    def __init__(self, pid, tier, level):
        self.pid, self.tier, self.level = pid, tier, level
        self.seed = seed_from_env()
        self.t0 = time.time()
        self.violations = []       # (signature, replay dict)
        self.known_hits = {}       # finding id -> count
        self.drift = 0
        self.drift_samples = []
        self.cov = {"evaluations": 0, "distinct_nontrivial": 0, "samples": [], "rule": ""}
        self.assumptions = []
        kf = load_known_findings()
        self.known = [f for f in kf.get("findings", []) if f.get("property") == pid]
        self._distinct = set()

    # -- coverage helpers
    def count(self, n=1):
        self.cov["evaluations"] += n

    def nontrivial(self, key):
        self._distinct.add(key if isinstance(key, (str, int, tuple)) else json.dumps(key, sort_keys=True))

    def sample(self, s, limit=6):
        if len(self.cov["samples"]) < limit:
            self.cov["samples"].append(s)

    # -- verdicts
    def match_known(self, sig):
        for f in self.known:
            pat = f.get("match")
            if pat and re.search(pat, sig):
                return f
        return None

    def violation(self, sig, replay):
        """sig: a stable textual signature of *what* fails (used to match known findings)."""
        f = self.match_known(sig)
        if f is not None:
            self.known_hits[f["id"]] = self.known_hits.get(f["id"], 0) + 1
            return False
        if len(self.violations) < 25:
            self.violations.append((sig, replay))
        else:
            self.violations.append((sig, None))
        return True

    def spec_drift(self, what):
        self.drift += 1
        if len(self.drift_samples) < 5:
            self.drift_samples.append(what)

    def finish(self):
        wall = time.time() - self.t0
        self.cov["distinct_nontrivial"] = max(self.cov.get("distinct_nontrivial", 0), len(self._distinct))
        if not self.cov["samples"]:
            self.cov["samples"].append({"note": "no case matched this check's sampling rule in this run", "evaluations": self.cov["evaluations"]})
        self.cov["spec_drift"] = self.drift
        if self.drift_samples:
            self.cov["spec_drift_samples"] = self.drift_samples
        self.cov["known_finding_hits"] = self.known_hits
        ev = {"property_id": self.pid, "tier": self.tier, "seed": self.seed, "level": self.level,
              "coverage": self.cov, "assumptions": self.assumptions, "wall_s": round(wall, 2),
              "violations": len(self.violations)}
        os.makedirs(os.path.join(OUT, "evidence"), exist_ok=True)
        with open(os.path.join(OUT, "evidence", self.pid + ".json"), "w") as f:
            json.dump(ev, f, indent=1, ensure_ascii=False, default=str)
            f.write("\n")
        for f in self.known:
            n = self.known_hits.get(f["id"], 0)
            if n:
                print("KNOWN-FINDING: property=%s %s (%d cases)" % (self.pid, f["what"], n))
        if self.drift:
            print("SPEC-DRIFT property=%s cases=%d (real output differs from the specification's prediction; "
                  "property predicate holds) e.g. %s" % (self.pid, self.drift, json.dumps(self.drift_samples[:1], ensure_ascii=False)[:600]))
        if os.environ.get("VERIF_DEBUG_SIGS"):
            import collections
            cnt = collections.Counter(re.sub(r" flags=.*$", "", sig) for sig, _ in self.violations)
            with open(os.environ["VERIF_DEBUG_SIGS"], "w") as f:
                for k, n in cnt.most_common():
                    f.write("%6d %s\n" % (n, k))
        if self.violations:
            rdir = os.path.join(OUT, "replays", self.pid)
            os.makedirs(rdir, exist_ok=True)
            seen = set()
            for sig, rep in self.violations:
                if rep is None or sig in seen:
                    continue
                seen.add(sig)
                h = hashlib.sha1(json.dumps(rep, sort_keys=True, default=str).encode()).hexdigest()[:12]
                path = os.path.join(rdir, h + ".json")
                with open(path, "w") as f:
                    json.dump({"property": self.pid, "signature": sig, "case": rep}, f, indent=1, ensure_ascii=False, default=str)
                print("VIOLATION property=%s replay=%s" % (self.pid, path))
                print("  what: %s" % sig[:300])
                if len(seen) >= 10:
                    break
            print("property %s: %d violating cases (%d distinct signatures shown)" % (self.pid, len(self.violations), len(seen)))
            return 1
        print("OK property=%s tier=%s evaluations=%d nontrivial=%d wall=%.1fs" %
              (self.pid, self.tier, self.cov["evaluations"], self.cov["distinct_nontrivial"], wall))
        return 0


def b64(b):
    return base64.b64encode(b).decode()


def unb64(s):
    return base64.b64decode(s)


def chunks(lst, n):
    for i in range(0, len(lst), n):
        yield lst[i:i + n]


def pool_map(fn, items, timeout=6 * 3600):
    """Process-pool map that cannot hang: a worker that dies in the middle of a task (its task would be lost and Pool.map would wait
    for ever) or an overall timeout is an infrastructure failure (exit 2), never a verdict."""
    import multiprocessing, time
    p = multiprocessing.get_context("fork").Pool(NCPU)
    try:
        pids = set(w.pid for w in p._pool)
        ar = p.map_async(fn, items, chunksize=1)
        t0 = time.time()
        while not ar.ready():
            ar.wait(2)
            if set(w.pid for w in p._pool) != pids or any(w.exitcode is not None for w in p._pool):
                raise Infra("a pool worker process died in the middle of a task")
            if time.time() - t0 > timeout:
                raise Infra("process pool timed out after %d s" % timeout)
        res = ar.get()
        p.close()
        p.join()
        return res
    except BaseException:
        p.terminate()
        raise


def parallel_map(fn, items, workers=None):
    """Thread pool (the work is subprocess-bound)."""
    from concurrent.futures import ThreadPoolExecutor
    with ThreadPoolExecutor(max_workers=workers or NCPU) as ex:
        return list(ex.map(fn, items))
