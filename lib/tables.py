"""Operator tables: Go dump <-> TLA+ text <-> Python dict."""
import json, os, re

ABBR = {"Redactable": "R", "Exempt": "E", "OperatorArray": "OA", "OperatorMap": "OM", "Pipeline": "P",
        "FieldName": "FN", "Namespace": "NS", "Nil": "GoNil"}
ORDER = ["AggregationOperators", "CoreOperators", "OperatorMapDefs", "SearchOperators", "SearchAggregationOperators"]


def _tla_str(s):
    return '"' + s.replace("\\", "\\\\").replace('"', '\\"') + '"'


def _tab(entries, ind):
    if not entries:
        return "Tab(<< >>)"
    parts = []
    for k, v in entries:
        if isinstance(v, str):
            parts.append("(%s :> %s)" % (_tla_str(k), ABBR[v]))
        else:
            parts.append("(%s :> %s)" % (_tla_str(k), _tab(v, ind + 2)))
    return "Tab(" + (" @@\n" + " " * ind).join(parts) + ")"


def vocabulary(dump):
    voc = set()

    def walk(entries):
        for k, v in entries:
            voc.add(k)
            if not isinstance(v, str):
                walk(v)
    for n in ORDER:
        walk(dump[n])
    return sorted(voc)


def to_tla(dump):
    out = ["---- MODULE OperatorTables ----",
           "\\* The five operator tables of src/operators.go as tagged TLA+ values.  Produced by bin/gen-tables from a dump",
           "\\* of the Go tables, reviewed against operators.go and committed: from then on THIS FILE IS THE SPECIFICATION.",
           "\\* Every check compares the dump of the current tree with it (differences are reported as table drift and",
           "\\* the entries that exist only in the implementation are added to the case set of that run).",
           "\\* An entry is Ty(x) (an OperatorType), Tab(f) (a nested table), GoNil (a key whose Go value is nil).",
           "\\* Nil is the model's 'no entry'.  Records are tagged because TLC cannot compare a function with a string.",
           "EXTENDS TLC", "",
           'Ty(x)  == [tag |-> "ty", ty |-> x]', 'Tab(f) == [tag |-> "tab", m |-> f]',
           'Nil    == [tag |-> "nil"]', 'GoNil  == [tag |-> "gonil"]',
           'R == Ty("Redactable")', 'E == Ty("Exempt")', 'OA == Ty("OperatorArray")', 'OM == Ty("OperatorMap")',
           'P == Ty("Pipeline")', 'FN == Ty("FieldName")', 'NS == Ty("Namespace")', ""]
    for n in ORDER:
        out.append("%s ==\n  %s\n" % (n, _tab(dump[n], 6)))
    out.append("TopLevelSearchOperators == {%s}" % ",".join(_tla_str(s) for s in dump["TopLevelSearchOperators"]))
    out.append("Vocabulary == {%s}" % ",".join(_tla_str(s) for s in vocabulary(dump)))
    out.append("====")
    return "\n".join(out) + "\n"


def normalise(dump):
    """dump -> {table: nested dict} with order ignored (for comparison)."""
    def conv(entries):
        return {k: (v if isinstance(v, str) else conv(v)) for k, v in entries}
    d = {n: conv(dump[n]) for n in ORDER}
    d["TopLevelSearchOperators"] = sorted(dump["TopLevelSearchOperators"])
    return d


def load_spec_dump():
    """The committed dump that OperatorTables.tla was generated from (spec/OperatorTables.json)."""
    with open(os.path.join(os.path.dirname(os.path.dirname(os.path.abspath(__file__))), "spec", "OperatorTables.json")) as f:
        return json.load(f)


def diff(spec, cur, prefix=()):
    """Differences between two normalised tables: list of (path, spec value, current value)."""
    out = []
    keys = set(spec) | set(cur)
    for k in sorted(keys):
        a, b = spec.get(k), cur.get(k)
        if isinstance(a, dict) and isinstance(b, dict):
            out += diff(a, b, prefix + (k,))
        elif a != b:
            out.append((prefix + (k,), a, b))
    return out


def entries(dump):
    """All (table, path, type) triples, at every nesting depth."""
    res = []

    def walk(t, entries_, path):
        for k, v in entries_:
            if isinstance(v, str):
                res.append((t, path + (k,), v))
            else:
                res.append((t, path + (k,), "Table"))
                walk(t, v, path + (k,))
    for n in ORDER:
        walk(n, dump[n], ())
    return res
