"""C14 - selective mode (--redactFieldsRegexp R) redacts exactly the values under a matching field name.
Decided by: grammar-mode states with matching and non-matching user field names at every level (RedactorGM with
GMFields = {uf1, zzsecretA, uf1.zzsecretA}), replayed through the real CLI with a family of regexps; three-valued oracle:
must-redact (a name on the path matches), must-keep (none matches, not a search stage), open (search stages, expression
arrays holding a matching '$field' reference)."""
import re
import common, l3, jsonx
from checks.c01 import _get_by_pos

PID = "C14"
# update paths through array elements: positional operators are part of the field name
POSITIONAL = ("uf1.$.zzsecretA", "uf1.$[].zzsecretA", "uf1.$[m].zzsecretA")
SEARCH_STAGES = ("$search", "$searchMeta", "$vectorSearch", "$rankFusion")


def py_regexp(cfg):
    r = cfg.regexp()
    if r.startswith("(?i)"):
        return re.compile(r[4:], re.I)
    return re.compile(r)


def in_search_stage(inp, path):
    # attr/<holder>/<slot>/<i>/<stage key>...: the stage document has a search key
    for i in range(3, len(path)):
        if isinstance(path[i], int):
            st = jsonx.get(inp, path[:i + 1])
            if st and st[0] == 'obj' and any(k in SEARCH_STAGES for k, _ in st[1]):
                return True
    return False


def array_has_matching_ref(inp, path, rx):
    for i in range(len(path) - 1, 2, -1):
        if isinstance(path[i], int):
            arr = jsonx.get(inp, path[:i])
            if arr and arr[0] == 'arr':
                for it in arr[1]:
                    if it[0] == 'str' and it[1].startswith("$") and rx.search(it[1].lstrip("$")):
                        return True
    return False


def judge(byc, res):
    for name, r in byc.items():
        cfg = r.cfg
        if not cfg.re or r.crash or r.raw is None or not l3.is_gated(r.inp):
            continue
        rx = py_regexp(cfg)
        decided = 0
        for lf in r.leaves:
            if lf.lab not in ("user", "any") or not l3.in_zone(lf.path):
                continue
            if lf.path[2] == "documents" and jsonx.get(r.inp, ("attr", lf.path[1], "insert")) is None:
                continue
            t = lf.node[0]
            if t == 'null' or (t == 'str' and lf.node[1] == ""):
                continue
            if in_search_stage(r.inp, lf.path) or array_has_matching_ref(r.inp, lf.path, rx):
                continue                                           # open
            names = [p for p in lf.path[3:] if isinstance(p, str) and not p.startswith("$")]
            # the name of a $facet output / of a $rankFusion input pipeline labels a whole sub-pipeline; whether it counts as a field name
            # above the literals of that sub-pipeline is left open by the statement
            labels = [p for i, p in enumerate(lf.path) if i > 3 and isinstance(p, str) and lf.path[i - 1] in ("$facet", "pipelines")]
            if any(rx.search(n) for n in labels) and not any(rx.search(n) for n in names if n not in labels):
                continue                                           # open
            matches = any(rx.search(n) for n in names)
            o = _get_by_pos(r, lf)
            if o is None:
                continue
            decided += 1
            where = "%s/%s" % (lf.path[1], l3.abstract_path(lf.path[2:]))
            if matches and lf.lab != "user":
                continue            # positions the grammar does not label as client literals: only the keep rule is decided
            if matches:
                redactable = t == 'str' or (t == 'num' and cfg.num) or (t == 'bool' and cfg.bool and lf.node[1] is True)
                if redactable and (o == lf.node or (lf.token and lf.token in r.raw)):
                    l3.add_violation(res, "literal under a matching field name is emitted unchanged at %s (%s) flags=%s" % (where, t, " ".join(cfg.flags())), r,
                                     {"names_on_path": names, "regexp": cfg.regexp()})
            else:
                if o != lf.node:
                    l3.add_violation(res, "literal with no matching name on its path was changed at %s (%s) flags=%s" % (where, t, " ".join(cfg.flags())), r,
                                     {"names_on_path": names, "regexp": cfg.regexp(), "in": lf.node, "out": o})
        if decided:
            toks, _ = r.aligned()
            res["nontrivial"].add(hash(("".join(toks), name)) & 0xffffffffffff)


def cfgs(tier):
    cs = [l3.Cfg("unanch", re="unanch", match_keys=("zzsecretA", "uf1.zzsecretA", "zzsecretAx") + POSITIONAL),
          l3.Cfg("anch", re="anch", num=True, bool=True, match_keys=("zzsecretA",)),
          # a pattern that is one anchored word: a name that merely starts with it does not match
          l3.Cfg("anch1", re="anch1", match_keys=("zzsecretA",))]
    if tier == "thorough":
        cs += [l3.Cfg("ci", re="ci", num=True, match_keys=("zzsecretA", "uf1.zzsecretA"), replacement="Q"),
               l3.Cfg("anchw", re="anch", ns=True, ips=True, match_keys=("zzsecretA",))]
    return cs


def run(tier):
    v = common.Verdict(PID, tier, "model_checking")
    b = common.build()
    cs = cfgs(tier)
    vocab_fields, _ = l3.vocabulary_fields(b)
    rp = l3.Replay(b, v, cs, "checks.c14:judge", variants=2 if tier == "quick" else 3)
    fields = '{"uf1", "zzsecretA", "uf1.zzsecretA", "zzsecretAx"}'
    gm = {"GMDepth": "5", "GMWide": "1", "GMMaxFld": "2", "GMMaxArr": "1", "GMTail": "1", "GMSeeds": "<< >>", "GMFields": fields,
          "GMSlots": '{"filter","update","updates","deletes","documents","pipeline"}',
          "GMKinds": '{"plain","email","num","bool","date","oid","b64"}'}
    two = '{"uf1", "zzsecretA"}'
    plan = [("RedactorGM", dict(gm, GMFields=two, GMKinds='{"plain","num","date"}')),                               # one deviation from the representative keys
            ("RedactorGM", dict(gm, GMDepth="4", GMKinds='{"plain","num"}')),                                        # ... with the dotted / one-word-prefix names, shallower
            ("RedactorGM", dict(gm, GMDepth="6", GMWide="0", GMMaxArr="2", GMKinds='{"plain","num"}'))]              # representative keys only, deeper: wrapper chains
    # every entry of the operator tables in every context (after a leading $search stage, in sub-pipelines, $facet ...) with no matching name
    # anywhere: everything is must-keep
    plan.append(("RedactorTW", {"TWShapeKinds": '{"s","os","as"}'}))
    plan.append(("RedactorGM", dict(gm, GMDepth="4", GMFields='{"uf1", "uf1.$.zzsecretA", "uf1.$[].zzsecretA", "uf1.$[m].zzsecretA"}',
                                    GMSlots='{"update","updates"}', GMKinds='{"plain","email","num","date"}')))
    # every grammar edge in every walker context (sub-pipelines, $facet, search operators, pipeline-style updates ...) with the MATCHING name
    # wherever the path needs a user field: the literal at its end must be redacted
    dump = l3.grammar_dump()
    seeds_m, _ = l3.grammar_seeds(dump, field="zzsecretA", field_after_every_edge=True)
    plan.append(("RedactorGM", dict(gm, GMDepth="0", GMSeeds=seeds_m, GMKinds='{"plain","email","num","date"}')))
    # a user field spelled like a word of the implementation's CURRENT operator tables, directly below a field whose name matches: every word,
    # in every context that admits two nested user fields
    plan.append(("RedactorGM", dict(gm, GMDepth="5", GMWide="0", GMMaxFld="2", GMFields=vocab_fields[:-1] + ', "zzsecretA"}', GMBelow=vocab_fields,
                                    GMKinds='{"plain","num"}', GMSlots='{"filter","documents","update","pipeline"}')))
    if tier == "thorough":
        plan = [plan[-1], ("RedactorGM", dict(gm, GMDepth="0", GMSeeds=seeds_m)), ("RedactorTW", {"TWShapeKinds": "{}"}), ("RedactorGM", dict(gm, GMDepth="6", GMMaxArr="2", GMTail="2")),
                ("RedactorGM", dict(gm, GMDepth="8", GMWide="0", GMMaxArr="2", GMMaxFld="3", GMKinds='{"plain","num","email"}'))]
    states = trans = 0
    for mod, defs in plan:
        t = l3.generate(mod, mod + ".cfg", cs, defs, rp.sink, timeout=3000)
        if not t.ok:
            raise common.Infra("TLC failed on %s: %s\n%s" % (mod, t.violation, t.out[-800:]))
        states += t.distinct
        trans += t.generated
    rp.finish()
    v.cov.update({"states": states, "transitions": trans, "traces_validated_against_impl": v.cov["evaluations"], "exhaustive": True,
                  "abstract_cases": rp.records, "flag_sets": [c.desc() for c in cs],
                  "rule": "cases = grammar paths in which up to 2 (thorough 3) user field names are drawn from {non-matching, matching, dotted name that "
                          "matches only the unanchored regexps}, with operators ($in, $nin, $all, $each, $elemMatch, $not ...), arrays and sub-documents "
                          "between name and literal; non-trivial = a case in which at least one literal was decided as must-redact or must-keep; "
                          "distinct by (outcome pattern, flag set)",
                  "trusted_base": ["TLC", "lib/jsonx.py", "lib/l3.py", "Python re for the regexp family (same semantics as RE2 for these patterns)"]})
    return v.finish()


def replay(path):
    print(open(path).read()[:6000])
    return 0
