"""C01 - sensitive literal values never survive redaction (full-redaction mode).
Decided by: TLC walks spec/MongoGrammar.tla in lock-step with the walkers (RedactorGM: every grammar edge from every
representative context, labelled leaves) and every line class x slot (RedactorEW); each state is replayed through the real CLI
under full-redaction flag sets; verdict = whole-line search for the canary of every leaf labelled `user` by the grammar."""
import common, l3, jsonx

PID = "C01"


def judge(byc, res):
    for name, r in byc.items():
        cfg = r.cfg
        if cfg.re:
            continue
        if r.crash or r.raw is None:
            res["extra"]["no_output"] = res["extra"].get("no_output", 0) + 1
            continue
        gated = l3.is_gated(r.inp)
        raw = r.raw
        checked = 0
        for lf in r.leaves:
            if lf.lab == "remote" and cfg.ips and lf.token:
                checked += 1
                if lf.token in raw:
                    l3.add_violation(res, "client address survives --redactIPs at %s" % l3.abstract_path(lf.path), r, {"leaf": lf.token})
                continue
            if lf.lab != "user" or not gated or not l3.in_zone(lf.path):
                continue
            if lf.path[2] == "documents" and jsonx.get(r.inp, ("attr", lf.path[1], "insert")) is None:
                continue   # documents outside an insert command are not "inserted documents"
            t = lf.node[0]
            bad = None
            if t == 'str' and lf.token:
                checked += 1
                if lf.token in raw:
                    bad = "string literal (%s)" % lf.cls
            elif t == 'num' and cfg.num:
                checked += 1
                o = jsonx.get(r.out, lf.path) if r.out else None
                if lf.token and (lf.token in raw or (o is not None and o == lf.node)):
                    bad = "numeric literal under --redactNumbers"
            elif t == 'bool' and cfg.bool and lf.node[1] is True:
                checked += 1
                o = _get_by_pos(r, lf)
                if o is not None and o == ('bool', True):
                    bad = "boolean literal under --redactBooleans"
            if bad:
                sig = "%s survives at %s/%s flags=%s" % (bad, lf.path[1], l3.abstract_path(lf.path[2:]), " ".join(cfg.flags() + (["--encrypt"] if cfg.encrypt else [])))
                l3.add_violation(res, sig, r, {"leaf_path": [str(p) for p in lf.path], "token": lf.token})
        if checked:
            toks, _ = r.aligned()
            res["nontrivial"].add(hash(("".join(toks), name)) & 0xffffffffffff)


def _get_by_pos(r, lf):
    """Output leaf at the same position (keys may have been renamed under --redactFieldNames: walk by index)."""
    a, b = r.inp, r.out
    for p in lf.path:
        if b is None:
            return None
        if a[0] == 'obj':
            idx = next((i for i, (k, _) in enumerate(a[1]) if k == p), None)
            if idx is None or b[0] != 'obj' or idx >= len(b[1]):
                return None
            a, b = a[1][idx][1], b[1][idx][1]
        elif a[0] == 'arr':
            if b[0] != 'arr' or p >= len(b[1]):
                return None
            a, b = a[1][p], b[1][p]
    return b


def cfgs(tier):
    cs = [l3.Cfg("base"),
          l3.Cfg("all", num=True, bool=True, ips=True, ns=True, replacement="Xx"),
          l3.Cfg("eagerenc", eager=True, encrypt=True, num=True, bool=True),
          # replacement texts that are a prefix of the literals, and the empty one (a literal must vanish whatever the replacement is)
          l3.Cfg("rz", replacement="Zq", num=True), l3.Cfg("rempty", replacement="", bool=True)]
    if tier == "thorough":
        cs += [l3.Cfg("eager", eager=True, num=True, bool=True), l3.Cfg("enc", encrypt=True, bool=True, ips=True)]
    if tier == "thorough":
        cs += [l3.Cfg("n", num=True), l3.Cfg("b", bool=True), l3.Cfg("w", ns=True, ips=True),
               l3.Cfg("eagerw", eager=True, ns=True, replacement="Q"), l3.Cfg("encall", encrypt=True, num=True, bool=True, ns=True, eager=True)]
    return cs


def inproc_opts(cfg, regexp=None):
    o = {"numbers": cfg.num, "booleans": cfg.bool, "ips": cfg.ips, "namespaces": cfg.ns, "eager": [l3.EAGER_NS] if cfg.eager else None,
         "regexp": regexp or ""}
    if cfg.replacement is not None:
        o["replacement"] = cfg.replacement
    return o


def after_mode_switch(W, chunk_no, cases, per_case, cfgs, workdir, res):
    """'... as well as in-process': one process that first runs the lines in selective mode (--redactFieldsRegexp with an expression no
    field matches), then in the full-redaction flag sets.  Whatever the first runs leave behind in the process (caches, tables patched in
    place), a client literal that the fresh CLI process removes must not come out of the warmed-up process."""
    import json, os
    if chunk_no % 2 or not W["b"].get("inproc") or not cases:
        return

    class B:
        pass
    b = B()
    b.inproc, b.root = W["b"]["inproc"], W["b"]["root"]
    inp = os.path.join(workdir, "ms.in")
    with open(inp, "w", encoding="utf-8") as f:
        f.write("\n".join(c[4] for c in cases) + "\n")
    full = [c for c in cfgs if not c.re and not c.encrypt]
    reqs = [{"op": "redact", "args": {"opts": inproc_opts(l3.Cfg("warm"), regexp="^(zzsecretA|nomatch[0-9]+)$"), "in": inp, "out": os.path.join(workdir, "ms.warm")}},
            {"op": "redact", "args": {"opts": inproc_opts(l3.Cfg("warm2", num=True, bool=True), regexp="(?i)^NOMATCH$"), "in": inp, "out": os.path.join(workdir, "ms.warm2")}}]
    for c in full:
        reqs.append({"op": "redact", "args": {"opts": inproc_opts(c), "in": inp, "out": os.path.join(workdir, "ms." + c.name)}})
    try:
        common.run_inproc(b, reqs)
    except common.Infra:
        return
    for c in full:
        try:
            outs = [json.loads(l) for l in open(os.path.join(workdir, "ms." + c.name), encoding="utf-8")]
        except Exception:
            continue
        for gid, (rec, v_, tree, leaves, text, fam) in enumerate(cases):
            if gid >= len(outs) or "o" not in outs[gid]:
                continue
            r = per_case[gid].get(c.name)
            if r is None or r.raw is None or not l3.is_gated(tree):
                continue
            raw = outs[gid]["o"]
            res["evals"] += 1
            if raw == r.raw:
                continue
            for lf in leaves:
                if lf.lab != "user" or not lf.token or not l3.in_zone(lf.path):
                    continue
                if lf.node[0] == 'num' and not c.num:
                    continue
                if lf.node[0] not in ('str', 'num'):
                    continue
                if lf.token in raw and lf.token not in r.raw:
                    l3.add_violation(res, "in one process, after runs in --redactFieldsRegexp mode, a %s literal survives full redaction at %s/%s flags=%s" % (
                        "numeric" if lf.node[0] == 'num' else "string", lf.path[1], l3.abstract_path(lf.path[2:]), " ".join(c.flags())), r,
                        {"in_process_output_after_selective_runs": raw[:4000], "token": lf.token})
                    break


def run(tier):
    v = common.Verdict(PID, tier, "model_checking")
    b = common.build()
    cs = cfgs(tier)
    vocab_fields, table_drift = l3.vocabulary_fields(b)
    rp = l3.Replay(b, v, cs, "checks.c01:judge", variants=2 if tier == "quick" else 3, pad_arrays=True, after="checks.c01:after_mode_switch")
    cov = l3.EdgeCoverage(rp.sink)
    dump = l3.grammar_dump()
    all_edges = l3.grammar_edges(dump)
    seeds, nseeds = l3.grammar_seeds(dump)
    states = trans = 0
    allkinds = '{"plain","email","empty","num","bool","null","dollar","date","oid","b64","nsname"}'
    gm = {"GMDepth": "5", "GMWide": "1", "GMMaxFld": "1", "GMMaxArr": "1", "GMTail": "1", "GMSeeds": seeds,
          "GMKinds": '{"plain","email","num","bool","dollar","date","oid","b64","nsname"}'}
    plan = [("RedactorEW", {}, rp.sink),
            ("RedactorGM", dict(gm, GMDepth="0", GMKinds=allkinds), cov.sink),      # the seeds: every grammar edge, every leaf kind
            ("RedactorGM", dict(gm, GMSeeds="<< >>"), cov.sink),                       # bounded walk
            # every non-$ word of the implementation's CURRENT operator tables used as a user field name
            ("RedactorGM", dict(gm, GMSeeds="<< >>", GMDepth="4", GMWide="0", GMFields=vocab_fields, GMKinds='{"plain","num"}',
                                GMSlots='{"filter","documents","update","pipeline"}'), cov.sink)]
    if tier == "thorough":
        plan = [("RedactorEW", {}, rp.sink),
                ("RedactorGM", dict(gm, GMDepth="0", GMKinds=allkinds), cov.sink),
                ("RedactorGM", dict(gm, GMSeeds="<< >>", GMDepth="7", GMMaxFld="2", GMMaxArr="2", GMTail="2"), cov.sink),
                ("RedactorGM", dict(gm, GMSeeds="<< >>", GMDepth="5", GMWide="2", GMTail="2"), cov.sink),
                ("RedactorGM", dict(gm, GMSeeds="<< >>", GMDepth="5", GMWide="0", GMFields=vocab_fields, GMKinds='{"plain","num","bool","email"}',
                                    GMSlots='{"filter","documents","update","pipeline","updates","deletes"}'), cov.sink)]
    for mod, defs, sink in plan:
        t = l3.generate(mod, mod + ".cfg", cs, defs, sink, timeout=3000)
        if not t.ok:
            raise common.Infra("TLC failed on %s: %s\n%s" % (mod, t.violation, t.out[-800:]))
        states += t.distinct
        trans += t.generated
    rp.finish()
    missing = sorted(all_edges - cov.seen)
    v.cov.update({"states": states, "transitions": trans, "traces_validated_against_impl": v.cov["evaluations"],
                  "exhaustive": True, "abstract_cases": rp.records, "flag_sets": [c.desc() for c in cs],
                  "grammar_edges_total": len(all_edges), "grammar_edges_exercised": len(all_edges & cov.seen),
                  "grammar_edges_not_reached": ["%s.%s" % e for e in missing[:40]],
                  "lines_without_output": rp.extra.get("no_output", 0), "crashed_lines": rp.crashes, "crash_samples": rp.crash_samples[:2],
                  "grammar_seed_paths": nseeds, "operator_table_drift": table_drift[:20],
                  "rule": "cases = states of RedactorGM (paths through spec/MongoGrammar.tla, depth %s, one deviation from the representative keys, "
                          "labelled sibling elements/fields) and RedactorEW (line classes x slots); each concretised %d times (ASCII, Unicode, e-mail, "
                          "'$' inside, digits, escapes, long) and run under every flag set; non-trivial = at least one `user` leaf (or the client "
                          "address under -i) was searched for in the whole output line; distinct by (outcome pattern, flag set)" % (plan[-1][1]["GMDepth"], rp.opts["variants"]),
                  "trusted_base": ["TLC", "lib/jsonx.py", "lib/l3.py", "spec/MongoGrammar.tla labels (written from the MongoDB manual and the statement)"]})
    v.assumptions += ["labels `user`/`free` of MongoGrammar.tla are the oracle for which positions hold client literals",
                      "empty strings cannot be searched for and are exempt"]
    return v.finish()


def replay(path):
    print(open(path).read()[:6000])
    return 0
