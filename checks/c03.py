"""C03 - redaction preserves the JSON shape of every line.
Decided by: RedactorTW / RedactorFree (TLC enumerates trees over the complete operator vocabulary, every table entry
at every depth, all leaf shapes) replayed through the real CLI; verdict = tree diff by an independent ordered parser."""
import common, l3, jsonx

PID = "C03"


def judge(byc, res):
    for name, r in byc.items():
        if r.crash or r.raw is None:
            res["extra"]["no_output"] = res["extra"].get("no_output", 0) + 1
            continue
        toks, probs = r.aligned()
        res["nontrivial"].add(hash(("".join(toks), name)) & 0xffffffffffff)
        if probs:
            kind, path, detail = probs[0]
            # signature: what kind of shape damage, under which kind of key, for which value kind
            sig = "shape:%s at %s (%s) flags=%s" % (kind, "/".join(str(p) for p in path[-3:]), detail[:120], " ".join(r.cfg.flags()))
            l3.add_violation(res, sig, r, {"problems": [(k, list(p), d) for k, p, d in probs[:5]]})
        if "\n" in r.raw or "\r" in r.raw:
            l3.add_violation(res, "output line contains a line break", r)


def cfgs(tier):
    cs = [l3.Cfg("base"),
          l3.Cfg("all", num=True, bool=True, ips=True, ns=True, replacement='X"\\é<'),
          l3.Cfg("sel", num=True, bool=True, re="unanch"),
          l3.Cfg("enc", num=True, encrypt=True)]
    if tier == "thorough":
        cs += [l3.Cfg("nb", num=True, bool=True), l3.Cfg("ns", ns=True), l3.Cfg("sela", re="anch", ips=True),
               l3.Cfg("empty", replacement="", bool=True)]
    return cs


def run(tier):
    v = common.Verdict(PID, tier, "model_checking")
    b = common.build(need_inproc=False)
    cs = cfgs(tier)
    rp = l3.Replay(b, v, cs, "checks.c03:judge", variants=2 if tier == "quick" else 3, pad_arrays=True, twins=True)
    shapes = '{"s","sa","os","aos","aas","aaos","oas","xdate","xbin","xdateNL","eo","ea","sao","saa"}' if tier == "quick" else "{}"
    t = l3.generate("RedactorTW", "RedactorTW.cfg", cs, {"TWShapeKinds": shapes}, rp.sink)
    if not t.ok:
        raise common.Infra("TLC failed on RedactorTW: %s\n%s" % (t.violation, t.out[-800:]))
    states, trans = t.distinct, t.generated
    # zone slots and statement / document / stage arrays holding the wrong kind of value (RedactorEW damaged slots)
    t1 = l3.generate("RedactorEW", "RedactorEW.cfg", cs, {"EWDamaged": "TRUE"}, rp.sink)
    if not t1.ok:
        raise common.Infra("TLC failed on RedactorEW: %s\n%s" % (t1.violation, t1.out[-800:]))
    states += t1.distinct
    trans += t1.generated
    if tier == "thorough":
        t2 = l3.generate("RedactorFree", "RedactorFree.cfg", cs, {"FreeDepth": "2"}, rp.sink, timeout=3000)
        if not t2.ok:
            raise common.Infra("TLC failed on RedactorFree: %s\n%s" % (t2.violation, t2.out[-800:]))
        states += t2.distinct
        trans += t2.generated
    rp.finish()
    # documents nested deeper than TLC's bounded trees (to 300 levels, thorough 1000), inside and outside the zones: same shape out as in
    from checks.c04 import depth_ladder
    ndeep = depth_ladder(b, v, [c for c in cs if not c.re], tier, shape_in_zone=True)
    for s in rp.stray_samples[:3]:
        v.violation("stray output line (not one JSON object with the line's id): %s" % s["why"], s)
    v.cov.update({"states": states, "transitions": trans, "traces_validated_against_impl": v.cov["evaluations"],
                  "exhaustive": True, "abstract_cases": rp.records, "flag_sets": [c.desc() for c in cs],
                  "lines_without_output": rp.extra.get("no_output", 0), "crashed_lines": rp.crashes, "depth_ladder_lines": ndeep,
                  "rule": "cases = states of spec/RedactorTW.tla (every entry of the five operator tables at every depth x context x leaf shape)"
                          + (" + spec/RedactorFree.tla (every vocabulary key over every key/array to depth 2)" if tier == "thorough" else "")
                          + "; each replayed through `anonymongo redact` under every flag set; non-trivial/distinct = distinct "
                            "(outcome pattern of all keys and leaves, flag set) pairs observed on the real output",
                  "trusted_base": ["TLC", "lib/jsonx.py (Python json with order/literal hooks)", "lib/l3.py concretiser"]})
    v.assumptions += ["inputs have no duplicate sibling keys", "--redactFieldNames excluded (renames keys by design)"]
    return v.finish()


def replay(path):
    import json
    with open(path) as f:
        rep = json.load(f)
    print(json.dumps(rep, indent=1, ensure_ascii=False)[:6000])
    return 0
