"""C15 - field-name redaction renames consistently, completely, only in chosen namespaces.
Decided by: grammar-mode / envelope-walk states replayed through the real CLI with and without --redactFieldNames, planted
identifiers (1..20 chars, dotted, substrings of each other and of IXSCAN, hex-looking) at the key positions the statement
names, as '$field' references and as plan-summary index keys; verdict = token-wise absence, one pseudonym per name across
keys / references / plan summary, values equal to the flag-off run, foreign namespaces byte-identical to the flag-off run."""
import re
import common, l3, jsonx

PID = "C15"
PAIRS = {"eager": "base", "eagern": "n", "eagerw": "w"}
GROUP = re.compile(r"IXSCAN\s*\{([^}]*)\}")
VARREF = re.compile(r"^\$\$[A-Za-z_][A-Za-z0-9_]*\.(.+)$")


def plan_tokens(s):
    out = []
    for m in GROUP.finditer(s):
        for f in m.group(1).split(","):
            k = f.split(":", 1)[0].strip()
            if k:
                out.append(k)
    return out


def plan_skeleton(s):
    """The plan summary with every index key token blanked."""
    def repl(m):
        fs = []
        for f in m.group(1).split(","):
            kv = f.split(":", 1)
            fs.append("§:" + (kv[1] if len(kv) > 1 else ""))
        return "IXSCAN {" + ",".join(fs) + "}"
    return re.sub(r"\s+", " ", GROUP.sub(repl, s))


def judge(byc, res):
    for ename, bname in PAIRS.items():
        if ename not in byc:
            continue
        re_, rb = byc[ename], byc[bname]
        if re_.crash or rb.crash or re_.raw is None or rb.raw is None:
            continue
        cfg = re_.cfg
        flags = " ".join(cfg.flags())
        nsn = jsonx.get(re_.inp, ("attr", "ns"))
        gated = l3.is_gated(re_.inp)
        chosen = gated and nsn is not None and nsn[0] == 'str' and nsn[1].startswith(l3.EAGER_NS)
        if not chosen:
            # (d) other namespaces / ungated lines: exactly as without the flag
            if re_.raw != rb.raw:
                l3.add_violation(res, "a line of another namespace differs from the run without --redactFieldNames flags=%s" % flags, re_, {"flag_off_output": rb.raw[:4000]})
            else:
                res["nontrivial"].add(hash(("foreign", ename, len(re_.raw) // 40)) & 0xffffffffffff)
            continue
        eo, bo = re_.out, rb.out
        mapping = {}
        planted = set()
        def bind(name, pseud, where):
            ic, oc = name.lstrip("$").split("."), pseud.lstrip("$").split(".")
            if len(ic) != len(oc):
                l3.add_violation(res, "pseudonym does not keep the dotted structure (%s) flags=%s" % (where, flags), re_, {"in": name, "out": pseud})
                return
            for a, b in zip(ic, oc):
                if not cfg.pseudo_re().match(b):
                    l3.add_violation(res, "field name not replaced by a pseudonym (%s) flags=%s" % (where, flags), re_, {"in": name, "out": pseud})
                    return
                if mapping.setdefault(a, b) != b:
                    l3.add_violation(res, "one name, two pseudonyms (%s) flags=%s" % (where, flags), re_, {"name": a, "pseudonyms": [mapping[a], b]})
        reflab = {lf.path: lf.lab for lf in re_.leaves}
        # keys at claimed positions; structure
        for ev in l3.walk_both(re_.inp, eo):
            if ev[0] == 'shape':
                l3.add_violation(res, "sibling count changed at %s flags=%s" % (l3.abstract_path(ev[1]), flags), re_, {"why": ev[2]})
                break
            if ev[0] == 'key':
                path, kin, kout = ev[1], ev[2], ev[3]
                if l3.fn_claimed(path[:-1]) and not kin.startswith("$") and kin in re_.cfam and not (
                        path[2] == "documents" and jsonx.get(re_.inp, ("attr", path[1], "insert")) is None):
                    planted.update(kin.split("."))
                    if kout == kin:
                        l3.add_violation(res, "field name kept as key at %s flags=%s" % (l3.abstract_path(path[:-1]), flags), re_, {"key": kin})
                    else:
                        bind(kin, kout, "key at " + l3.abstract_path(path[:-1]))
            if ev[0] == 'leaf':
                path, a, b = ev[1], ev[2], ev[3]
                mv = VARREF.match(a[1]) if a[0] == 'str' else None
                if mv and l3.in_zone(path) and mv.group(1) in re_.cfam and b is not None and b[0] == 'str' and reflab.get(path) == "ref" and not (
                        path[2] == "documents" and jsonx.get(re_.inp, ("attr", path[1], "insert")) is None):
                    # '$$ROOT.field', '$$CURRENT.field', '$$this.field': the field name must go (the absence test below sees it), and if the
                    # tail of what replaces it is a pseudonym path it is the pseudonym of that field
                    name = mv.group(1)
                    planted.update(name.split("."))
                    if b == a:
                        l3.add_violation(res, "'$$variable.field' reference kept at %s flags=%s" % (l3.abstract_path(path), flags), re_, {"ref": a[1]})
                    else:
                        tail = b[1].lstrip("$").split(".")[-len(name.split(".")):]
                        if all(cfg.pseudo_re().match(x) for x in tail):
                            bind(name, ".".join(tail), "variable reference at " + l3.abstract_path(path))
                    continue
                if a[0] == 'str' and a[1].startswith("$") and l3.in_zone(path) and a[1].lstrip("$") in re_.cfam and b is not None and b[0] == 'str' and reflab.get(path) == "ref" and not (
                        path[2] == "documents" and jsonx.get(re_.inp, ("attr", path[1], "insert")) is None):
                    planted.update(a[1].lstrip("$").split("."))
                    if b == a:
                        l3.add_violation(res, "'$field' reference kept at %s flags=%s" % (l3.abstract_path(path), flags), re_, {"ref": a[1]})
                    elif cfg.pseudo_re().match(b[1].lstrip("$")):
                        bind(a[1], b[1], "reference at " + l3.abstract_path(path))
                    else:
                        l3.add_violation(res, "'$field' reference replaced by something that is not its pseudonym at %s flags=%s" % (l3.abstract_path(path), flags), re_,
                                         {"ref": a[1], "out": b[1]})
        # plan summary
        pin, pout = jsonx.get(re_.inp, ("attr", "planSummary")), jsonx.get(eo, ("attr", "planSummary"))
        if pin and pout and pin[0] == 'str' and pout[0] == 'str':
            ti, to = plan_tokens(pin[1]), plan_tokens(pout[1])
            if plan_skeleton(pin[1]) != plan_skeleton(pout[1]) or len(ti) != len(to):
                l3.add_violation(res, "plan summary structure damaged flags=%s" % flags, re_, {"in": pin[1], "out": pout[1]})
            else:
                for a, b in zip(ti, to):
                    planted.update(a.split("."))
                    if a == b:
                        l3.add_violation(res, "index key name kept in the plan summary flags=%s" % flags, re_, {"in": pin[1], "out": pout[1]})
                    else:
                        bind(a, b, "plan summary")
        inv = {}
        for a, b in mapping.items():
            if inv.setdefault(b, a) != a:
                l3.add_violation(res, "two names, one pseudonym flags=%s" % flags, re_, {"names": [inv[b], a]})
        # (a) token-wise absence of every planted name
        if planted:
            toks = set()
            for s in jsonx.all_strings(eo, keys=True):
                if s.startswith("$"):
                    toks.update(s.lstrip("$").split("."))
            for path, n in jsonx.leaves(eo):
                pass
            def keys_of(node):
                if node[0] == 'obj':
                    for k, v in node[1]:
                        yield k
                        yield from keys_of(v)
                elif node[0] == 'arr':
                    for v in node[1]:
                        yield from keys_of(v)
            zone_root = jsonx.get(eo, ("attr",))
            for k in keys_of(zone_root) if zone_root else []:
                if not k.startswith("$"):
                    toks.update(k.split("."))
            if pout and pout[0] == 'str':
                for t in plan_tokens(pout[1]):
                    toks.update(t.split("."))
            left = sorted(n for n in planted if n in toks)
            long_left = sorted(n for n in planted if len(n) >= 7 and n.startswith("Zfn") and n in re_.raw)
            if left or long_left:
                l3.add_violation(res, "planted field name still present in the emitted line (%s) flags=%s" % ("token" if left else "substring", flags), re_, {"names": left or long_left})
            res["nontrivial"].add(hash((ename, "".join(re_.aligned()[0]))) & 0xffffffffffff)
        # (c) values as without the flag: positions holding client literals, kept parameters, namespaces, anything outside the zones
        strict = {lf.path: lf for lf in re_.leaves if lf.lab in ("user", "keep", "keepTop", "ns", "env", "remote")}
        pos = [lf.path for lf in re_.leaves]
        outs_b = [n for _, n in jsonx.leaves(bo)]
        outs_e = [n for _, n in jsonx.leaves(eo)]
        if len(outs_b) == len(outs_e) == len(pos):
            for p, nb, ne in zip(pos, outs_b, outs_e):
                if nb != ne and p in strict and not (nb[0] == 'str' and strict[p].node[0] == 'str' and strict[p].node[1].startswith("$")):
                    l3.add_violation(res, "a value is redacted differently with --redactFieldNames at %s flags=%s" % (l3.abstract_path(p), flags), re_,
                                     {"without_flag": nb, "with_flag": ne})
                    break


def cfgs(tier):
    cs = [l3.Cfg("base"), l3.Cfg("eager", eager=True), l3.Cfg("n", num=True, bool=True), l3.Cfg("eagern", eager=True, num=True, bool=True),
          l3.Cfg("w", ns=True),
          # several --redactFieldNames values: the one that matches is not the last one given
          l3.Cfg("eagerw", eager=True, ns=True, eager_ns=[l3.EAGER_NS, "zzNoSuchDb.zzNoSuchColl"])]
    return cs


def run(tier):
    v = common.Verdict(PID, tier, "model_checking")
    b = common.build(need_inproc=False)
    cs = cfgs(tier)
    rp = l3.Replay(b, v, cs, "checks.c15:judge", variants=3 if tier == "quick" else 9, fn_style=True)
    dump = l3.grammar_dump()
    seeds, _ = l3.grammar_seeds(dump)
    gm = {"GMDepth": "5", "GMWide": "1", "GMMaxFld": "2", "GMMaxArr": "1", "GMTail": "1", "GMSeeds": "<< >>",
          "GMKinds": '{"plain","num","dollar","null","date"}'}
    plan = [("RedactorEW", {}),
            ("RedactorGM", dict(gm, GMDepth="0", GMSeeds=seeds)),
            ("RedactorGM", dict(gm, GMDepth="4"))]
    if tier == "thorough":
        plan.append(("RedactorGM", dict(gm, GMDepth="6", GMMaxArr="2")))
    states = trans = 0
    for mod, defs in plan:
        t = l3.generate(mod, mod + ".cfg", cs, defs, rp.sink, timeout=3000)
        if not t.ok:
            raise common.Infra("TLC failed on %s: %s\n%s" % (mod, t.violation, t.out[-800:]))
        states += t.distinct
        trans += t.generated
    rp.finish()
    v.cov.update({"states": states, "transitions": trans, "traces_validated_against_impl": v.cov["evaluations"], "exhaustive": True,
                  "abstract_cases": rp.records, "flag_sets": [c.desc() for c in cs],
                  "rule": "cases = RedactorEW + grammar seeds + bounded walk; the k-th concretisation puts the line into the chosen namespace, a namespace "
                          "with the chosen one as prefix, or a foreign one, and draws field names from 6 identifier families and the plan summary from 7 forms; "
                          "non-trivial = a chosen-namespace line with at least one planted name at a claimed position, or a foreign line compared with the "
                          "flag-off run; distinct by outcome pattern",
                  "trusted_base": ["TLC", "lib/jsonx.py", "lib/l3.py"]})
    v.assumptions.append("claimed key positions: keys of query predicate, update specification, inserted documents, sort document, $match/$sort stages "
                         "(lib/l3.py fn_claimed); operator names and output-field names of $group/$project/$set are not judged")
    return v.finish()


def replay(path):
    print(open(path).read()[:6000])
    return 0
