"""C19 - redacted output is a fixed point of redaction.
Decided by: TLC checks the design-level invariant IdemInv (a second pass over the output, placeholders re-read in their own
class, changes nothing) on the table-walk / free / grammar / envelope state spaces; every state is replayed: the real CLI
runs twice (output of pass 1 fed back with the same flags) and the two outputs must be byte-identical."""
import os, shutil, tempfile
import common, l3, jsonx

PID = "C19"


def first_difference(a_raw, b_raw):
    try:
        a, b = jsonx.parse(a_raw), jsonx.parse(b_raw)
    except Exception:
        return "pass-2 line is not valid JSON"
    for ev in l3.walk_both(a, b):
        if ev[0] == 'shape':
            return "shape changed at " + l3.abstract_path(ev[1])
        if ev[0] == 'key' and ev[2] != ev[3]:
            return "key %r re-serialised as %r at %s" % (ev[2][:30], ev[3][:30], l3.abstract_path(ev[1][:-1]))
        if ev[0] == 'leaf' and ev[2] != ev[3]:
            return "%s leaf %r became %r at %s" % (ev[2][0], str(ev[2][1])[:40], str(ev[3][1])[:40], l3.abstract_path(ev[1]))
    return "bytes differ but trees are equal (serialisation not canonical)"


def process_chunk_c19(args):
    chunk_no, recs = args
    W = l3._W
    b = l3._B(W["b"]["cli"])
    cfgs, opts = W["cfgs"], W["opts"]
    seed, nvar = opts["seed"], opts["variants"]
    workdir = tempfile.mkdtemp(prefix="c19-%d-" % chunk_no, dir=W["b"]["root"])
    res = {"evals": 0, "nontrivial": set(), "violations": [], "drift": 0, "drift_samples": [], "samples": [], "crashes": 0,
           "crash_samples": [], "stray": 0, "stray_samples": [], "extra": {}}
    try:
        lines = []
        for i, rec in enumerate(recs):
            for v in range(nvar):
                c = l3.Concretiser(seed, chunk_no * 100000 + i, v)
                c.pad_arrays = True
                # the first pass may meet any formatting (a log that went through jq / a shipper: blanks after ',' and ':'); the second pass
                # always meets the tool's own
                lines.append((rec, jsonx.dumps(c.line(rec["in"], len(lines)), sep=((',', ':'), (', ', ': '), (',', ': '))[v % 3])))
        texts = [t for _, t in lines]
        ids = list(range(len(texts)))
        for cfg in cfgs:
            rc1, out1, err1 = l3.run_batch(b, texts, cfg, workdir, None)
            if rc1 != 0:
                res["crashes"] += 1          # a crash / over-long line is C07's business; nothing to compare here
                continue
            l1 = [x for x in out1.split("\n") if x != ""]
            rc2, out2, err2 = l3.run_batch(b, l1, cfg, workdir, None)
            l2 = [x for x in out2.split("\n") if x != ""]
            res["evals"] += len(l1)
            by_id = {}
            for t in texts:
                m = l3._ID_RE.search(t)
                by_id[int(m.group(1))] = t
            if rc2 != 0 or l1 != l2:
                # locate the first line that pass 2 did not reproduce
                j = 0
                while j < len(l1) and j < len(l2) and l1[j] == l2[j]:
                    j += 1
                if j < len(l1):
                    m = l3._ID_RE.search(l1[j])
                    src = by_id.get(int(m.group(1))) if m else None
                    o2 = l2[j] if j < len(l2) else None
                    same_line = o2 is not None and m and l3._ID_RE.search(o2) and l3._ID_RE.search(o2).group(1) == m.group(1)
                    why = first_difference(l1[j], o2) if same_line else "pass 2 did not emit the line (pass-1 line not accepted as a JSON object?)"
                    rep = {"cfg": cfg.desc(), "input_line": (src or "")[:6000], "pass1": l1[j][:6000], "pass2": (o2 if same_line else "")[:6000] if o2 else "",
                           "pass2_exit": rc2}
                    res["violations"].append(("second pass changes the output: %s flags=%s" % (why, " ".join(cfg.flags())), rep))
            for t_in, t_out in zip(texts, l1):
                if t_in != t_out:
                    res["nontrivial"].add(hash((t_out.count("REDACTED"), len(t_out) // 50, cfg.name)) & 0xffffffffffff)
            got1 = {0: l1[0] if l1 else ""}
            got2 = {0: l2[0] if l2 else ""}
        if chunk_no == 0 and texts:
            res["samples"].append({"input_line": texts[0][:700], "pass1": got1.get(0, "")[:700], "pass2": got2.get(0, "")[:700], "cfg": cfgs[-1].desc()})
    finally:
        shutil.rmtree(workdir, ignore_errors=True)
    res["nontrivial"] = list(res["nontrivial"])
    return res


def judge(byc, res):
    pass


def length_ladder(b, v, cs, tier):
    """Pass-1 output lines of every length around the usual buffer sizes (redaction changes the length of a line, so an output line can
    have a length no input line had): lines are padded, outside the zones, so that the *output* lengths cover 4096-w..4096+w, 8192.., 16384..,
    32768.., and a stretch just below 65536; the output fed back must be reproduced byte for byte."""
    import streamlib as sl
    wd = tempfile.mkdtemp(prefix="c19-len-", dir=b.root)
    pool = sl.Pool(v.seed)
    w = 24 if tier == "quick" else 120
    n = 0
    try:
        for cfg in cs:
            if cfg.encrypt:
                continue
            base = pool.obj_line("cmd", 3, 4400000)
            probe = base[:-1] + ',"pad":"' + "p" * 50 + '"}'
            rc, out, err = l3.run_batch(b, [probe], cfg, wd, None)
            if rc != 0 or not out.strip():
                continue
            delta = len(out.strip("\n").encode("utf-8")) - len(probe.encode("utf-8"))
            targets = []
            for centre in (4096, 8192, 16384, 32768):
                targets += list(range(centre - w, centre + w + 1))
            targets += list(range(65536 - 2 * w - 40, 65536 - 40))
            texts = []
            for k, tl in enumerate(targets):
                b0 = pool.obj_line("cmd", 3, 4400001 + k)
                room = tl - delta - len(b0.encode("utf-8")) - 9
                if room < 1:
                    continue
                texts.append(b0[:-1] + ',"pad":"' + "p" * room + '"}')
            rc1, out1, err1 = l3.run_batch(b, texts, cfg, wd, None)
            if rc1 != 0:
                continue            # a line the reader refuses is C07's business
            l1 = [x for x in out1.split("\n") if x != ""]
            hit = sorted(set(len(x.encode("utf-8")) for x in l1) & {4095, 4096, 4097, 8192, 16384, 32768})
            rc2, out2, err2 = l3.run_batch(b, l1, cfg, wd, None)
            l2 = [x for x in out2.split("\n") if x != ""]
            n += len(l1)
            v.count(len(l1))
            v.nontrivial(("ladder", cfg.name, tuple(hit)))
            if rc2 != 0 or l1 != l2:
                j = 0
                while j < len(l1) and j < len(l2) and l1[j] == l2[j]:
                    j += 1
                ln = len(l1[j].encode("utf-8")) if j < len(l1) else -1
                v.violation("second pass does not reproduce a pass-1 line whose length is %s flags=%s" % (
                    "an exact multiple of 4096 bytes" if ln % 4096 == 0 else "next to a multiple of 4096 bytes" if min(ln % 4096, 4096 - ln % 4096) <= 2 else "near a buffer size", " ".join(cfg.flags())),
                            {"cfg": cfg.desc(), "pass1_lines": len(l1), "pass2_lines": len(l2), "pass2_exit": rc2, "first_unreproduced_line_length": ln,
                             "pass1_line_head": l1[j][:300] if j < len(l1) else "", "pass2_line_head": (l2[j][:300] if j < len(l2) else "")})
    finally:
        shutil.rmtree(wd, ignore_errors=True)
    return n


def cfgs(tier):
    cs = [l3.Cfg("base"), l3.Cfg("nbi", num=True, bool=True, ips=True), l3.Cfg("repl", replacement='X"\\é', num=True),
          l3.Cfg("iprepl", replacement="10.1.2.3:27017", ips=True, num=True),
          # a replacement text that is spelled like a number (placeholders re-read by the second pass must stay what they are)
          l3.Cfg("numrepl", replacement="1234", num=True, bool=True)]
    if tier == "thorough":
        cs += [l3.Cfg("n", num=True), l3.Cfg("b", bool=True), l3.Cfg("i", ips=True), l3.Cfg("nb", num=True, bool=True),
               l3.Cfg("empty", replacement="", bool=True, ips=True), l3.Cfg("hex", replacement="0" * 24, num=True, bool=True, ips=True),
               l3.Cfg("boolrepl", replacement="true", bool=True, num=True), l3.Cfg("daterepl", replacement="2020-02-02T02:02:02.000Z", num=True)]
    return cs


def run(tier):
    v = common.Verdict(PID, tier, "model_checking")
    b = common.build(need_inproc=False)
    cs = cfgs(tier)
    rp = l3.Replay(b, v, cs, "checks.c19:judge", variants=2 if tier == "quick" else 3, worker="checks.c19:process_chunk_c19")
    dump = l3.grammar_dump()
    seeds, _ = l3.grammar_seeds(dump)
    gm = {"GMDepth": "0", "GMSeeds": seeds, "GMKinds": '{"plain","email","empty","num","bool","null","dollar","date","oid","b64","nsname"}'}
    plan = [("RedactorTW", {"TWShapeKinds": '{"s","os","aos","xdate","xoid","xbin","ea"}' if tier == "quick" else "{}"}),
            ("RedactorEW", {"EWDamaged": "TRUE"}), ("RedactorGM", gm)]
    if tier == "thorough":
        plan += [("RedactorFree", {"FreeDepth": "1"}), ("RedactorFree", {"FreeDepth": "2", "FreeSlots": '{"filter","pipeline"}'})]
    states = trans = 0
    for mod, defs in plan:
        t = common.run_tlc(mod, mod + "_idem.cfg", defines=dict({"Cfgs": l3.cfgs_tla(cs)}, **l3_defaults(defs)), sink=rp.sink, want_records=False, timeout=3000)
        if not t.ok:
            if t.violation and "IdemInv" in t.violation:
                print("DESIGN-LEVEL: the specification itself violates IdemInv (see TLC trace); the replay below decides for the code")
            else:
                raise common.Infra("TLC failed on %s: %s\n%s" % (mod, t.violation, t.out[-800:]))
        states += t.distinct
        trans += t.generated
    rp.finish()
    nlad = length_ladder(b, v, cs, tier)
    v.cov.update({"states": states, "transitions": trans, "traces_validated_against_impl": v.cov["evaluations"], "exhaustive": True,
                  "abstract_cases": rp.records, "flag_sets": [c.desc() for c in cs], "crashed_lines": rp.crashes, "length_ladder_lines": nlad,
                  "rule": "cases = table-walk + free + envelope-walk + grammar-seed states; each concretised (escapes, non-BMP, exotic number literals, exotic "
                          "keys) and run through `redact` twice with the same flags; plus a ladder of lines whose pass-1 output has every length around 4096, 8192, 16384, "
                          "32768 and just below 65536 bytes; non-trivial = pass 1 changed the line; distinct by (predicted outcome pattern, flag set)",
                  "trusted_base": ["TLC (IdemInv checked on every state)", "lib/l3.py"]})
    v.assumptions.append("no --redactNamespaces / --redactFieldNames; replacement text not e-mail shaped (as the statement says)")
    return v.finish()


def l3_defaults(defs):
    d = {"TWTables": "{}", "TWShapeKinds": "{}", "FreeDepth": "1", "FreeKeys": "{}", "FreeSlots": "{}", "GMDepth": "4", "GMWide": "1",
         "GMMaxFld": "2", "GMMaxArr": "2", "GMTail": "2", "GMShallow": "2", "GMSeeds": "<< >>", "GMSlots": "{}", "GMFields": '{"uf1"}', "GMBelow": "{}",
         "GMKinds": '{"plain","num"}'}
    d.update(defs)
    return d


def replay(path):
    print(open(path).read()[:8000])
    return 0
