"""C13 - pseudonyms are a stable, collision-free, component-wise function of the name.
Decided by: spec/Pseudonym.tla (HashName and its write-only side table at string level over an alphabet containing '$' and '.')
model-checked by TLC over every name up to a length bound x every call history (ComponentWise, DollarIrrelevant, HistoryFree,
Bijective); every history is replayed on the real function in-process (fresh side table per history, calls in the given order) and
the structural prediction is compared; a global component <-> pseudonym bijection is demanded across all histories, a large
dictionary, several replacement prefixes, two separate processes and - through the real CLI - every flag combination that must not
matter (--encrypt with different key files, value flags, -w / -f)."""
import itertools, json, os, random, re, shutil, tempfile
import common, jsonx, streamlib as sl

PID = "C13"
ALPHA = {"a": "a", "b": "b", ".": ".", "$": "$"}


def parts_of(name):
    return name.lstrip("$").split(".")


class Bij:
    """component <-> pseudonym, per replacement prefix, across everything the check sees."""

    def __init__(self, v):
        self.v = v
        self.fwd, self.bwd = {}, {}

    def see(self, repl, name, result, where, rep=None):
        v = self.v
        parts = parts_of(name)
        pat = re.escape(repl) + r"_[0-9a-f]{16}"
        m = re.fullmatch("(%s)(?:\\.(%s))*" % (pat, pat), result)
        comps = re.findall(pat, result) if m else None
        rep = dict(rep or {}, name=name, result=result, replacement=repl, where=where)
        if comps is None:
            v.violation("a pseudonym is not of the form <replacement>_<16 hex digits> joined by '.' (%s)" % where, rep)
            return
        if len(comps) != len(parts):
            v.violation("a dotted path is not mapped component by component: %d components in, %d out (%s)" % (len(parts), len(comps), where), rep)
            return
        for p, c in zip(parts, comps):
            k = (repl, p)
            if self.fwd.setdefault(k, c) != c:
                v.violation("the same name component receives different pseudonyms (%s)" % where, dict(rep, component=p, other=self.fwd[k]))
                return
            k2 = (repl, c)
            if self.bwd.setdefault(k2, p) != p:
                v.violation("different name components receive the same pseudonym (%s)" % where, dict(rep, component=p, other_component=self.bwd[k2]))
                return


def pseudonyms_in(out_line, repl):
    return re.findall(re.escape(repl) + r"_[0-9a-f]{16}(?:\." + re.escape(repl) + r"_[0-9a-f]{16})*", out_line)


def run(tier):
    v = common.Verdict(PID, tier, "model_checking")
    b = common.build()
    if not b.inproc or "hashname" not in b.ops:
        raise common.Infra("in-process driver needed (HashName)")
    have_seq = "hashseq" in b.ops
    # ---- (1) model: every name x every history
    plan = [(3, 2)] if tier == "quick" else [(4, 2), (2, 3)]
    bij = Bij(v)
    states = trans = 0
    nhist = 0
    for maxlen, maxcalls in plan:
        cfg = ("SPECIFICATION Spec\nCONSTANT Alphabet = {\"a\", \"b\", \".\", \"$\"}\nCONSTANT MaxLen = %d\nCONSTANT MaxCalls = %d\n"
               "INVARIANT ComponentWise\nINVARIANT DollarIrrelevant\nINVARIANT HistoryFree\nINVARIANT Bijective\nINVARIANT EmitInv\nCHECK_DEADLOCK FALSE\n" % (maxlen, maxcalls))
        t = common.run_tlc("PseudonymMC", "PseudonymMC.cfg", timeout=1800, files={"PseudonymMC.cfg": cfg})
        if not t.ok:
            raise common.Infra("TLC on Pseudonym failed: %s\n%s" % (t.violation, t.out[-1200:]))
        states += t.distinct
        trans += t.generated
        hists = []
        for r in t.records:
            calls = [("".join(c["name"]), ["".join(p) for p in c["parts"]]) for c in r["calls"]]
            hists.append(calls)
        nhist += len(hists)
        for repl in ("REDACTED", "Rr-x", "100%", "pct%d %s", "%.0s"):
            # the alphabet is concretised twice: as it is, and with longer / non-ASCII components
            # (the third: two components that differ only in surrounding white space)
            for amap in ({"a": "a", "b": "b"}, {"a": "userName", "b": "ü漢"}, {"a": "total", "b": " total "}):
                conc = lambda s: "".join(amap.get(ch, ch) for ch in s)
                H = [[conc(n) for n, _ in h] for h in hists]
                if have_seq:
                    res = common.run_inproc(b, [{"op": "hashseq", "args": {"replacement": repl, "histories": H}}])[0]
                    if res.get("panic"):
                        v.violation("HashName panics", {"panic": res["panic"]})
                        continue
                    res = res["result"]
                else:
                    res = [common.run_inproc(b, [{"op": "hashname", "args": {"replacement": repl, "names": h}}])[0]["result"] for h in H[:300]]
                for h, hc, rr in zip(hists, H, res):
                    for (n, mparts), nc, r_ in zip(h, hc, rr):
                        v.count()
                        if parts_of(n) != mparts:
                            raise common.Infra("the judge's and the model's component split disagree on %r" % n)
                        bij.see(repl, nc, r_, "history %s" % json.dumps(hc), {"history": hc})
                    v.nontrivial(tuple(sorted(set(p for n, ps in h for p in ps))))
                    if any("$" in n and "." in n for n, _ in h):
                        v.sample({"replacement": repl, "history": hc, "results": rr}, limit=3)
    # ---- (2) dictionary: injectivity and stability over a large domain, without re-computing any hash
    sym = list("abcdefghijklmnopqrstuvwxyz0123456789_-") + ["é", "漢"]
    names = [""] + ["".join(t_) for k in (1, 2, 3) for t_ in itertools.product(sym, repeat=k)]
    rng = random.Random(v.seed)
    extra = 20000 if tier == "quick" else 900000
    for _ in range(extra):
        names.append("".join(rng.choice(sym + ["A", "Z", " ", "/", "\\", "\"", "\U0001d4b3"]) for _ in range(rng.randint(4, 14))))
    # long components: pairs that agree on a long prefix and differ only at the end (a fixed-size scratch buffer would merge them)
    for L in (31, 32, 33, 63, 64, 65, 127, 128, 129, 254, 255, 256, 257, 300, 511, 512, 513, 1000, 1023, 1024, 1025, 4096, 5000):
        base = ("fieldName" * (L // 9 + 1))[:L - 1]
        names += [base + "a", base + "b", base, base + "ab"]
    # names that differ only in leading / trailing white space are different names
    for base in ("total", "n", "userName", "漢", ""):
        names += [base + " ", " " + base, " " + base + " ", base + "\t", "\n" + base, base + "\u00a0", base + "  "]
    # canonically equivalent spellings are different names (different bytes in the log): precomposed / combining, OHM / OMEGA, ANGSTROM / A-ring, Hangul
    names += ["caf\u00e9", "cafe\u0301", "\u2126", "\u03a9", "\u212b", "\u00c5", "A\u030a", "\uac00", "\u1100\u1161", "\ufb01", "fi", "\u1e9b\u0323", "\u1e9b", "\u017f",
              "s", "\uff21", "A", "Stra\u00dfe", "Strasse", "STRASSE", "\u0130", "i\u0307", "I"]
    names = sorted(set(n for n in names if "." not in n and not n.startswith("$")))
    for repl in ("REDACTED",) if tier == "quick" else ("REDACTED", "X"):
        res = []
        for chunk in common.chunks(names, 100000):
            res += common.run_inproc(b, [{"op": "hashname", "args": {"replacement": repl, "names": chunk}}])[0]["result"]
        seen = {}
        for n, r_ in zip(names, res):
            v.count()
            if not re.fullmatch(re.escape(repl) + r"_[0-9a-f]{16}", r_):
                v.violation("a pseudonym is not of the form <replacement>_<16 hex digits> (dictionary)", {"name": n, "result": r_})
                break
            if seen.setdefault(r_, n) != n:
                v.violation("different names receive the same pseudonym (dictionary)", {"name": n, "other": seen[r_], "result": r_})
                break
            if (repl, n) in bij.fwd and bij.fwd[(repl, n)] != r_:
                v.violation("the pseudonym of a name differs between two processes / call orders", {"name": n, "result": r_, "earlier": bij.fwd[(repl, n)]})
                break
        # names that are spelled like pseudonyms (a second run over the tool's own output): still hashed, still injective
        back = sorted(set(res[:3000]))
        bres = common.run_inproc(b, [{"op": "hashname", "args": {"replacement": repl, "names": back}}])[0]["result"]
        for n, r_ in zip(back, bres):
            v.count()
            if r_ == n or seen.setdefault(r_, n) != n:
                v.violation("a name spelled like a pseudonym is not given a pseudonym of its own (fixed point / collision)", {"name": n, "result": r_, "other": seen.get(r_)})
                break
        # a second, separate process, reversed call order, compound names built from the dictionary
        sub = names[::max(1, len(names) // 20000)]
        rev = common.run_inproc(b, [{"op": "hashname", "args": {"replacement": repl, "names": list(reversed(sub))}}])[0]["result"]
        first = dict(zip(names, res))
        for n, r_ in zip(reversed(sub), rev):
            v.count()
            if first[n] != r_:
                v.violation("the pseudonym of a name differs between two processes / call orders", {"name": n, "first": first[n], "second": r_})
                break
        comp = ["%s.%s" % (a, c) for a, c in zip(sub[:4000], sub[4000:8000])] + ["$" + a for a in sub[:2000]] + ["$$%s.$%s" % (a, c) for a, c in zip(sub[:500], sub[500:1000])]
        # deep paths: every depth around the limits a "defensive" bound would pick (BSON nesting 100, 128, 256, 1000)
        for depth in (2, 31, 32, 33, 63, 64, 65, 99, 100, 101, 102, 127, 128, 129, 150, 255, 256, 257, 500, 1000, 1001):
            comp.append(".".join(sub[(7 * depth + i) % len(sub)] for i in range(depth)))
        cres = common.run_inproc(b, [{"op": "hashname", "args": {"replacement": repl, "names": comp}}])[0]["result"]
        for n, r_ in zip(comp, cres):
            v.count()
            want = ".".join(first.get(p) or "?" for p in parts_of(n)) if all(p in first for p in parts_of(n)) else None
            if want is not None and r_ != want:
                v.violation("a dotted / '$'-prefixed name is not the component-wise composition of its components' pseudonyms", {"name": n, "result": r_, "expected": want})
                break
    # ---- (3) through the real CLI: flags that must not matter, separate processes
    ncli = cli_level(b, v, tier, bij)
    v.cov.update({"states": states, "transitions": trans, "traces_validated_against_impl": nhist * 4, "exhaustive": True,
                  "histories_replayed": nhist, "dictionary_names": len(names), "cli_runs": ncli, "fresh_side_table_per_history": have_seq,
                  "rule": "model: all names over {a,b,.,$} up to the length bound x all call histories, replayed in order on the real HashName with a fresh side "
                          "table per history, two replacement prefixes, two concretisations of the alphabet; verdict: form, component count, one global "
                          "component <-> pseudonym bijection across all histories / processes; dictionary: all strings <= 3 over 40 symbols + generated names "
                          "(injective, stable in a second process with reversed order, compositional); CLI: the same names under flag sets that must not matter",
                  "trusted_base": ["TLC", "harness/inproc hashname / hashseq ops", "lib/jsonx.py"]})
    v.assumptions.append("collision-freedom of the truncated hash is established on the dictionary actually run, not for all strings (DESIGN section 6)")
    return v.finish()


def cli_level(b, v, tier, bij=None):
    """Pseudonyms visible in --redactNamespaces / --redactFieldNames output must be the same function of the name in every run."""
    wd = tempfile.mkdtemp(prefix="c13cli-", dir=b.root)
    names = [("dbZn", "collZn"), ("shop", "orders.archive"), ("a", "b"), ("Ünï", "cöll"), ("db-1", "system.profile"),
             # names that differ only in letter case, and one name in both roles (database and collection)
             ("Sales", "Orders"), ("sales", "orders"), ("SALES", "Sales"), ("ÜNÏ", "CÖLL")]
    fields = ["name", "userName", "id", "a", "owner.$id", "items.$.qty", "x.y.z", "ü"]
    lines = []
    for i, (db, coll) in enumerate(names):
        ns = db + "." + coll
        for j, f in enumerate(fields):
            filt = {f: "v%d" % j, "$expr": {"$eq": ["$" + f.split(".")[-1].lstrip("$"), "$other"]}}
            lines.append(json.dumps({"t": {"$date": "2025-01-01T00:00:00Z"}, "s": "I", "c": "COMMAND", "id": 1000 + i * 20 + j, "ctx": "c", "msg": "Slow query",
                                     "attr": {"ns": ns, "command": {"find": coll, "filter": filt, "$db": db}, "planSummary": "IXSCAN { %s: 1 }" % f.split(".")[0]}},
                                    ensure_ascii=False, separators=(",", ":")))
    data = ("\n".join(lines) + "\n").encode("utf-8")
    inp = os.path.join(wd, "in.log")
    open(inp, "wb").write(data)
    rev = os.path.join(wd, "rev.log")
    open(rev, "wb").write(("\n".join(reversed(lines)) + "\n").encode("utf-8"))
    eager = []
    for db, coll in names:
        eager += ["-f", db + "." + coll]
    runs = [("w", inp, ["-w"], None), ("w again", inp, ["-w"], None), ("w reversed input", rev, ["-w"], None), ("w+f", inp, ["-w"] + eager, None),
            ("w+f reversed input", rev, ["-w"] + eager, None), ("w+f+values", inp, ["-w", "-n", "-b", "-i"] + eager, None),
            ("w+f+encrypt key A", inp, ["-w"] + eager, "kA"), ("w+f+encrypt key B", inp, ["-w"] + eager, "kB"), ("w+encrypt key A", inp, ["-w"], "kA")]
    maps = {}
    n = 0
    for label, path, flags, key in runs:
        args = ["redact", path] + flags
        outp = None
        if key:
            outp = os.path.join(wd, "o.log")
            args += ["-o", outp, "--encrypt", "-q", os.path.join(wd, key + ".key")]
        p = common.run_cli(b, args, cwd=wd)
        n += 1
        v.count()
        out = (open(outp, "rb").read() if outp and os.path.exists(outp) else p.stdout).decode("utf-8", "replace")
        if p.returncode != 0:
            v.violation("a CLI run with pseudonymisation flags fails (%s)" % label, {"flags": flags, "stderr": p.stderr.decode("utf-8", "replace")[:400]})
            continue
        byid = {}
        for line in out.split("\n"):
            if not line.strip():
                continue
            t = jsonx.parse(line)
            idn = int(jsonx.get(t, ("id",))[1])
            attr = jsonx.get(t, ("attr",))
            cmd = jsonx.get(attr, ("command",))
            rec = {"ns": jsonx.get(attr, ("ns",))[1], "find": jsonx.get(cmd, ("find",))[1], "db": jsonx.get(cmd, ("$db",))[1]}
            if "-f" in flags:
                filt = jsonx.get(cmd, ("filter",))
                rec["keys"] = [k for k, _ in filt[1]]
                ex = jsonx.get(filt, ("$expr", "$eq"))
                rec["refs"] = [x[1] for x in ex[1]] if ex else []
                rec["plan"] = jsonx.get(attr, ("planSummary",))[1]
            byid[idn] = rec
        maps[label] = byid
    base = maps.get("w")
    basef = maps.get("w+f")
    for label, byid in maps.items():
        ref = basef if ("+f" in label and basef) else base
        if not ref:
            continue
        for idn, rec in byid.items():
            r0 = ref.get(idn)
            if r0 is None:
                continue
            for k in rec:
                if k in r0 and rec[k] != r0[k]:
                    v.violation("pseudonyms differ between two runs that differ only in call order / process / flags that must not matter (%s)" % label,
                                {"run": label, "field": k, "this_run": rec[k], "reference_run": r0[k], "line_id": idn})
                    break
            else:
                continue
            break
    # the names visible in the CLI output take part in the global component <-> pseudonym bijection (same function as the in-process calls;
    # the role of a name - database, collection - does not matter)
    if base and bij is not None:
        for i, (db, coll) in enumerate(names):
            rec = base.get(1000 + i * 20)
            if rec:
                bij.see("REDACTED", db, rec["db"], "CLI -w, $db")
                bij.see("REDACTED", coll, rec["find"], "CLI -w, the verb's collection")
                bij.see("REDACTED", db + "." + coll, rec["ns"], "CLI -w, attr.ns")
    # within a run: same component -> same pseudonym across fields (ns = P(db).P(coll); $ref = key)
    if basef:
        for idn, rec in basef.items():
            if rec["ns"] != rec["db"] + "." + rec["find"]:
                v.violation("attr.ns is not P(db).P(coll) of the command's own names", {"line_id": idn, "rec": rec})
                break
    shutil.rmtree(wd, ignore_errors=True)
    return n


def replay(path):
    print(open(path).read()[:6000])
    return 0
