"""C04 - nothing outside the redaction zones is altered.
Decided by: TLC state spaces of RedactorEW (every line class x holder x slot), RedactorTW and RedactorFree replayed through
the real CLI; verdict = tree diff restricted to the positions the statement protects (everything outside the zone keys of the
three command documents, exact number literals, object keys inside zones when field names are kept, $limit/$skip/...)."""
import common, l3, jsonx

PID = "C04"


def judge(byc, res):
    for name, r in byc.items():
        if r.crash or r.raw is None:
            res["extra"]["no_output"] = res["extra"].get("no_output", 0) + 1
            continue
        cfg = r.cfg
        gated = l3.is_gated(r.inp)
        nsnode = jsonx.get(r.inp, ("attr", "ns"))
        eager_line = cfg.eager and gated and nsnode is not None and nsnode[0] == 'str' and nsnode[1].startswith(l3.EAGER_NS)
        nontriv = False
        for ev in l3.walk_both(r.inp, r.out):
            kind, path = ev[0], ev[1]
            zone = gated and l3.in_zone(path)
            if kind == 'shape':
                if not zone:
                    l3.add_violation(res, "outside-zone structure changed at %s flags=%s" % ("/".join(map(str, path[:3])), " ".join(cfg.flags())), r, {"path": list(path), "why": ev[2]})
                continue
            if kind == 'key':
                if ev[2] != ev[3] and not (zone and eager_line and len(path) > 3):
                    where = "inside zone with field names kept" if zone else "outside zone"
                    l3.add_violation(res, "key changed %s: %s flags=%s" % (where, "/".join(map(str, path[-3:])), " ".join(cfg.flags())), r,
                                     {"path": list(path), "in": ev[2], "out": ev[3]})
                continue
            a, b = ev[2], ev[3]
            if a == b:
                if not zone:
                    nontriv = True
                continue
            # a differing leaf: is the position allowed to change?
            if zone and not l3.keep_position(path, a):
                continue
            if zone and l3.keep_position(path, a):
                l3.add_violation(res, "kept position changed: %s flags=%s" % ("/".join(map(str, path[-3:])), " ".join(cfg.flags())), r,
                                 {"path": list(path), "in": a, "out": b})
                continue
            allowed = False
            if path == ("attr", "ns") and cfg.ns:
                allowed = True
            elif path == ("attr", "remote") and cfg.ips:
                allowed = True
            elif path == ("attr", "planSummary") and eager_line:
                allowed = True
            elif cfg.ns and gated and len(path) == 3 and path[0] == "attr" and path[1] in l3.HOLDERS and path[2] in l3.NS_COMMAND_FIELDS:
                allowed = True
            if not allowed:
                what = "number literal" if a[0] == 'num' else a[0]
                l3.add_violation(res, "outside-zone %s changed at %s flags=%s" % (what, "/".join(map(str, path[:4])), " ".join(cfg.flags())), r,
                                 {"path": list(path), "in": a, "out": b})
        if nontriv:
            toks, _ = r.aligned()
            res["nontrivial"].add(hash(("".join(toks), name)) & 0xffffffffffff)


def _nest(d, tag):
    """d levels of documents (and, every third level, an array); keys in neither alphabetical nor reverse order at every level"""
    node = ('obj', [("zeta", ('str', "v-%s" % tag)), ("alpha", ('num', "-0.0")), ("Beta", ('bool', True)), ("m1", ('num', "1E5"))])
    for lvl in range(d, 0, -1):
        inner = ('arr', [node]) if lvl % 3 == 0 else node
        node = ('obj', [("zz%d" % lvl, ('str', "s%d" % lvl)), ("mid", inner), ("aa", ('num', "12345678901234567890123")), ("Ab", ('null', None))])
    return node


def depth_ladder(b, v, cs, tier, shape_in_zone=False):
    """The same comparison at nesting depths TLC's bounded trees do not reach (the walkers and the order-preserving reader are recursive):
    a deep document outside the zones (top level, attr, a command field that is no zone) and inside one (filter: keys stay, leaves change)."""
    import tempfile, shutil
    depths = [1, 2, 5, 9, 17, 28, 30, 31, 32, 33, 34, 35, 40, 63, 64, 65, 100, 127, 128, 129, 199, 200, 201, 202, 250, 300] if tier == "quick" else list(range(1, 140)) + [199, 200, 201, 202, 255, 256, 257, 500, 1000]
    lines, meta = [], []
    for d in depths:
        for pos in ("top", "attr", "cmdfield", "filter", "documents"):
            deep = _nest(d, "%s%d" % (pos, d))
            cmd = [("find", ('str', "collZn")), ("filter", ('obj', [("uf1", deep if pos == "filter" else ('str', "lit"))]))]
            if pos == "documents":
                cmd = [("insert", ('str', "collZn")), ("documents", ('arr', [deep]))]
            if pos == "cmdfield":
                cmd.append(("readConcern", deep))
            cmd.append(("$db", ('str', "dbZn")))
            attr = [("type", ('str', "command")), ("ns", ('str', "dbZn.collZn")), ("command", ('obj', cmd))]
            if pos == "attr":
                attr.append(("storage", deep))
            top = [("t", ('obj', [("$date", ('str', "2025-05-30T09:47:39.001+00:00"))])), ("s", ('str', "I")), ("c", ('str', "COMMAND")),
                   ("id", ('num', str(len(lines)))), ("ctx", ('str', "conn7")), ("msg", ('str', "Slow query")), ("attr", ('obj', attr))]
            if pos == "top":
                top.append(("extra", deep))
            lines.append(jsonx.dumps(('obj', top)))
            meta.append((d, pos))
    work = tempfile.mkdtemp(prefix="c04-deep-", dir=b.root)
    try:
        for cfg in cs:
            if cfg.encrypt:
                continue
            crashed = {}
            got, stray = l3.run_with_bisect(b, lines, list(range(len(lines))), cfg, work, None, crashed)
            for i, ln in enumerate(lines):
                d, pos = meta[i]
                v.cov["evaluations"] += 1
                if i in crashed or i not in got:
                    continue          # a line the tool refuses or dies on is C07's business
                inp, out = jsonx.parse(ln), jsonx.parse(got[i])
                v.nontrivial(("deep", min(d, 40), pos, cfg.name))
                for ev in l3.walk_both(inp, out):
                    kind, path = ev[0], ev[1]
                    zone = l3.in_zone(path)
                    bad = None
                    if kind == 'shape' and not zone:
                        bad = "outside-zone structure changed"
                    elif kind == 'shape' and shape_in_zone:
                        bad = "structure changed inside a zone (C03: keys, nesting and leaf types stay)"
                    elif kind == 'key' and ev[2] != ev[3] and not (zone and cfg.eager):
                        bad = "key changed (order or spelling)"
                    elif kind == 'leaf' and ev[2] != ev[3] and not zone and path[:2] not in (("attr", "ns"), ("attr", "remote")) \
                            and not (len(path) == 3 and path[2] in l3.NS_COMMAND_FIELDS):
                        bad = "outside-zone %s changed" % ev[2][0]
                    if bad:
                        v.violation("%s in a document nested %s levels deep (%s) flags=%s" % (bad, "more than 30" if d > 30 else "up to 30", pos, " ".join(cfg.flags())),
                                    {"depth": d, "position": pos, "path_tail": [str(x) for x in path[-4:]], "flags": cfg.flags(),
                                     "input": ln[:3000], "output": got[i][:3000]})
                        break
    finally:
        shutil.rmtree(work, ignore_errors=True)
    return len(lines)


def cfgs(tier):
    cs = [l3.Cfg("base"),
          l3.Cfg("all", num=True, bool=True, ips=True, ns=True),
          l3.Cfg("eager", eager=True, num=True),
          l3.Cfg("sel", re="unanch", bool=True)]
    if tier == "thorough":
        cs += [l3.Cfg("enc", encrypt=True, ns=True), l3.Cfg("repl", replacement="Ω\"x", ips=True), l3.Cfg("nb", num=True, bool=True)]
    return cs


def run(tier):
    v = common.Verdict(PID, tier, "model_checking")
    b = common.build(need_inproc=False)
    cs = cfgs(tier)
    rp = l3.Replay(b, v, cs, "checks.c04:judge", variants=2 if tier == "quick" else 4)
    states = trans = 0
    plan = [("RedactorEW", {"EWDamaged": "TRUE"}), ("RedactorFree", {"FreeDepth": "1"}),
            ("RedactorTW", {"TWShapeKinds": '{"s","sa","os","aos","aas","aaos"}' if tier == "quick" else "{}"})]
    if tier == "thorough":
        plan.append(("RedactorFree", {"FreeDepth": "2", "FreeSlots": '{"filter","pipeline"}'}))
    for mod, defs in plan:
        t = l3.generate(mod, mod + ".cfg", cs, defs, rp.sink, timeout=3000)
        if not t.ok:
            raise common.Infra("TLC failed on %s: %s\n%s" % (mod, t.violation, t.out[-800:]))
        states += t.distinct
        trans += t.generated
    rp.finish()
    deep_lines = depth_ladder(b, v, cs, tier)
    for s in rp.stray_samples[:3]:
        v.violation("an emitted line is not a JSON object carrying the line's id (its content was altered): %s" % s["why"], s)
    v.cov.update({"states": states, "transitions": trans, "traces_validated_against_impl": v.cov["evaluations"],
                  "exhaustive": True, "abstract_cases": rp.records, "flag_sets": [c.desc() for c in cs],
                  "lines_without_output": rp.extra.get("no_output", 0), "crashed_lines": rp.crashes, "depth_ladder_lines": deep_lines,
                  "rule": "cases = states of RedactorEW (5 components x 2 messages x 10 holders x 5 namespace relations x 14 slots x 6 contents, "
                          "plus lines without / with a non-document attr), RedactorFree (every vocabulary key in every slot), RedactorTW (every table "
                          "entry); each concretised with exotic number literals (1E5, -0.0, 1e400, 23-digit integers) and escape-heavy / non-BMP strings "
                          "outside the zones; plus a depth ladder (documents nested 1..200 levels, thorough 1..1000, with unsorted keys at every level, at the top level, "
                          "in attr, in a command field that is no zone, in the filter and in an inserted document); "
                          "non-trivial = at least one protected position compared; distinct by (outcome pattern, flag set)",
                  "trusted_base": ["TLC", "lib/jsonx.py", "lib/l3.py"]})
    v.assumptions += ["zone = the query-bearing keys of attr.command/cmd/originatingCommand named in the statement of C01/C04",
                      "no duplicate sibling keys; valid UTF-8"]
    return v.finish()


def replay(path):
    import json
    print(open(path).read()[:6000])
    return 0
