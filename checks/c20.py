"""C20 - the Atlas private key never leaves the process except as a digest response.
Decided by: spec/Atlas.tla - every request of the run is an action that records whether credential material is attached
(NoChallengeNoCredentials: only inside the answer to a Digest challenge for that very request) - model-checked by TLC for every server
behaviour (digest challenge, no challenge, Basic challenge, unparseable Digest challenge, 401 after a correct response) x every fault
position; every terminal state is replayed through the unmodified CLI (key by flag / environment / mixed) behind the fake endpoint and
through the library; every artefact of the run - request lines, headers, proxy CONNECT, stdout, stderr, output files, temp files,
returned errors - is scanned for the key verbatim and in nine encodings; the digest response is verified with the key on the server
side (the key is used, but only as a digest); request histories are validated as Atlas behaviours (AtlasTrace)."""
import json, os, shutil, tempfile
import common, streamlib as sl, atlasreplay as ar

PID = "C20"
AUTHS = ("digest", "none", "basic", "reject", "digest_unknown", "digest_bare")


def usage_runs(b, v, root):
    """Failures (and --help) that never reach the network: flag-parse errors, wrong argument counts, rejected combinations. Whatever
    the tool prints then - usage text with flag defaults included - must not contain the key, however it was supplied."""
    import subprocess
    n = 0
    priv, pub = "usage-PRIV/key+with=chars 42", "usagePUB"
    forms = ar.key_forms(priv, pub)
    base = ["redact", "--atlasProjectId", "p1", "--atlasClusterName", "c1", "-o", "out.log"]
    variants = [("--help", ["redact", "--help"]), ("-h after the Atlas flags", base + ["-h"]), ("unknown flag", base + ["--no-such-flag"]),
                ("malformed date value", base + ["--atlasLogStartDate", "yesterday"]), ("two positional arguments", ["redact", "a.log", "b.log"]),
                ("missing flag value", base + ["--atlasLogEndDate"]), ("one date only", base + ["--atlasLogEndDate", "1700000000"]),
                ("project without cluster", ["redact", "--atlasProjectId", "p1", "-o", "out.log"]), ("root help", ["--help"]),
                ("decrypt without argument", ["decrypt"]), ("unknown command", ["redcat"]), ("version", ["version"])]
    for how in ("env", "flags", "mixed"):
        for label, args in variants:
            d = tempfile.mkdtemp(prefix="usage-", dir=root)
            env = dict(os.environ)
            for k in ("ATLAS_PUBLIC_KEY", "ATLAS_PRIVATE_KEY", "HTTPS_PROXY", "HTTP_PROXY", "https_proxy", "http_proxy"):
                env.pop(k, None)
            env["HTTPS_PROXY"] = "http://127.0.0.1:9"          # nothing may be reached anyway
            a = list(args)
            if how in ("env", "mixed"):
                env["ATLAS_PRIVATE_KEY"] = priv
                env["ATLAS_PUBLIC_KEY"] = pub
            if how in ("flags", "mixed") and a and a[0] == "redact":
                a = a[:1] + ["--atlasPrivateKey", priv, "--atlasPublicKey", pub] + a[1:]
            p = subprocess.run([b.cli] + a, cwd=d, env=env, stdin=subprocess.DEVNULL, capture_output=True, timeout=60)
            n += 1
            v.count()
            arts = [("stdout", p.stdout), ("stderr", p.stderr)]
            for fn in os.listdir(d):
                fp = os.path.join(d, fn)
                if os.path.isfile(fp):
                    arts.append(("file " + fn, open(fp, "rb").read()))
            for name, data in arts:
                for fname, fv in forms.items():
                    if fv.encode("utf-8") in data:
                        v.violation("the private key appears (%s) in %s of a run that ends in a usage / help / rejection print [%s, key by %s]" % (fname, name, label, how),
                                    {"args": a if how == "env" else "(key on the command line)", "exit": p.returncode, "where": name,
                                     "excerpt": data.decode("utf-8", "replace")[max(0, data.find(fv.encode("utf-8")) - 200):][:500]})
                        break
            shutil.rmtree(d, ignore_errors=True)
    return n


def run(tier):
    v = common.Verdict(PID, tier, "model_checking")
    b = common.build()
    if not b.inproc or "atlas_download" not in b.ops:
        raise common.Infra("in-process atlas driver needed for the library level")
    maxh = 2 if tier == "quick" else 3
    t = ar.run_atlas_mc(maxh, AUTHS, ("none", "status", "reset", "cut", "notgzip", "outdir"))
    envs = {}
    for r in t.records:
        envs.setdefault(json.dumps([r["n"], r["auth"], r["fault"], r["cli"], r.get("keyOk", True)], sort_keys=True), r)
    recs = list(envs.values())
    pool = sl.Pool(v.seed)
    root = tempfile.mkdtemp(prefix="c20-", dir=b.root)
    keyways = ["env", "flags", "mixed", "mixed2", "flagseq"]
    work = []
    for i, r in enumerate(recs):
        for var in range(2 if tier == "quick" else 8):
            work.append((r, var, keyways[(i + var) % 5] if r["cli"] else "lib"))

    def one(args):
        rec, var, kb = args
        c = ar.build_case(rec, pool, var + (v.seed - 1) * 17, status_code=[401, 403, 404, 500][var % 4])
        obs = ar.run_case(b, c, root, key_by=kb if kb != "lib" else "env", flags=[["-n"], [], ["-w", "-i"]][var % 3])
        return rec, c, obs, kb

    traces, owners = [], []
    for rec, c, obs, kb in common.parallel_map(one, work):
        v.count()
        fk = rec["fault"]["kind"]
        what = "server: %s, fault %s at %s, key by %s, %d hosts" % (rec["auth"], fk, "cluster" if rec["fault"]["at"] == 0 else "host %d" % rec["fault"]["at"], kb, rec["n"])
        v.nontrivial((rec["auth"], fk, rec["fault"]["at"] > 0, kb))
        rep = {"scenario": what, "exit": obs.get("rc"), "requests": [(r.get("target"), (r.get("authorization") or "")[:40]) for r in obs["requests"]],
               "stderr": (obs.get("stderr") or b"")[:1500].decode("utf-8", "replace") if obs["level"] == "cli" else obs.get("err")}
        hits = ar.scan_for_key(c, obs)
        for art, form in hits[:3]:
            v.violation("the private key appears (%s) in %s [server %s, fault %s]" % (form, art.split(" #")[0], rec["auth"], fk), dict(rep, artefact=art, form=form))
        for r in obs["requests"]:
            a = r.get("authorization")
            if a is None:
                continue
            if rec["auth"] in ("none", "basic", "digest_unknown", "digest_bare"):
                v.violation("credential material is sent without a Digest challenge from the server (server: %s)" % rec["auth"], rep)
                break
            if not a.lower().startswith("digest "):
                v.violation("an Authorization header that is not a digest response is sent", rep)
                break
            if not r.get("digest_ok"):
                v.violation("the Authorization header is not the correct digest response for the key pair", rep)
                break
        # other headers must not carry it either: covered by the scan of the raw request head
        complete = len([i for i in obs.get("outs", {}) if (i + 1) in rec["outs"]]) if obs["level"] == "cli" else 0
        traces.append(ar.events_of(c, obs, complete))
        owners.append(what)
        if rec["auth"] == "reject" and obs["level"] == "cli":
            v.sample({"scenario": what, "stderr": rep["stderr"][:300], "requests": rep["requests"]}, limit=1)
    nusage = usage_runs(b, v, root)
    acc, rej, tstates = sl.validate_traces(traces, module="AtlasTrace", cfg="AtlasTrace.cfg", timeout=1500, max_rounds=15)
    for ti, ei, ev, why in rej:
        v.spec_drift({"trace_of": owners[ti], "rejected_at_event": ei, "event": ev, "trace": traces[ti][:12]})
    shutil.rmtree(root, ignore_errors=True)
    v.cov.update({"states": t.distinct + tstates, "transitions": t.generated, "traces_validated_against_impl": acc, "traces_rejected": len(rej),
                  "exhaustive": True, "environments": len(recs), "runs": len(work), "usage_and_help_runs": nusage, "server_behaviours": list(AUTHS), "key_supplied_by": keyways + ["library arguments"],
                  "encodings_scanned": sorted(ar.key_forms("x" * 8, "y").keys()),
                  "rule": "every terminal state of AtlasMC over 6 server behaviours x fault kinds (status 401/403/404/500 echoing the request head, reset, body cut, "
                          "redaction failure, output path failure) x positions, CLI with the key by flag (two-word and one-word form) / environment / mixed and library level; 5 key shapes (URL- "
                          "and base64-sensitive characters, non-ASCII, regular-expression / format / shell metacharacters); verdict: no occurrence of the key in any encoding in any artefact; Authorization only as a "
                          "verified digest response and never without a Digest challenge",
                  "trusted_base": ["TLC", "lib/fakeatlas.py (records what crosses the network, verifies the digest)", "lib/atlasreplay.py"]})
    return v.finish()


def replay(path):
    print(open(path).read()[:6000])
    return 0
