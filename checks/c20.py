"""C20 - the Atlas private key never leaves the process except as a digest response.
Decided by: spec/Atlas.tla - every request of the run is an action that records whether credential material is attached
(NoChallengeNoCredentials: only inside the answer to a Digest challenge for that very request) - model-checked by TLC for every server
behaviour (digest challenge, no challenge, Basic challenge, unparseable Digest challenge, 401 after a correct response) x every fault
position; every terminal state is replayed through the unmodified CLI (key by flag / environment / mixed) behind the fake endpoint and
through the library; every artefact of the run - request lines, headers, proxy CONNECT, stdout, stderr, output files, temp files,
returned errors - is scanned for the key verbatim and in nine encodings; the digest response is verified with the key on the server
side (the key is used, but only as a digest); request histories are validated as Atlas behaviours (AtlasTrace)."""
import json, os, shutil, tempfile
import common, streamlib as sl, atlasreplay as ar

PID = "C20"
AUTHS = ("digest", "none", "basic", "reject", "digest_unknown")


def run(tier):
    v = common.Verdict(PID, tier, "model_checking")
    b = common.build()
    if not b.inproc or "atlas_download" not in b.ops:
        raise common.Infra("in-process atlas driver needed for the library level")
    maxh = 2 if tier == "quick" else 3
    t = ar.run_atlas_mc(maxh, AUTHS, ("none", "status", "reset", "cut", "notgzip", "outdir"))
    envs = {}
    for r in t.records:
        envs.setdefault(json.dumps([r["n"], r["auth"], r["fault"], r["cli"]], sort_keys=True), r)
    recs = list(envs.values())
    pool = sl.Pool(v.seed)
    root = tempfile.mkdtemp(prefix="c20-", dir=b.root)
    keyways = ["env", "flags", "mixed", "mixed2"]
    work = []
    for i, r in enumerate(recs):
        for var in range(2 if tier == "quick" else 8):
            work.append((r, var, keyways[(i + var) % 4] if r["cli"] else "lib"))

    def one(args):
        rec, var, kb = args
        c = ar.build_case(rec, pool, var + (v.seed - 1) * 17, status_code=[401, 403, 404, 500][var % 4])
        obs = ar.run_case(b, c, root, key_by=kb if kb != "lib" else "env", flags=[["-n"], [], ["-w", "-i"]][var % 3])
        return rec, c, obs, kb

    traces, owners = [], []
    for rec, c, obs, kb in common.parallel_map(one, work):
        v.count()
        fk = rec["fault"]["kind"]
        what = "server: %s, fault %s at %s, key by %s, %d hosts" % (rec["auth"], fk, "cluster" if rec["fault"]["at"] == 0 else "host %d" % rec["fault"]["at"], kb, rec["n"])
        v.nontrivial((rec["auth"], fk, rec["fault"]["at"] > 0, kb))
        rep = {"scenario": what, "exit": obs.get("rc"), "requests": [(r.get("target"), (r.get("authorization") or "")[:40]) for r in obs["requests"]],
               "stderr": (obs.get("stderr") or b"")[:1500].decode("utf-8", "replace") if obs["level"] == "cli" else obs.get("err")}
        hits = ar.scan_for_key(c, obs)
        for art, form in hits[:3]:
            v.violation("the private key appears (%s) in %s [server %s, fault %s]" % (form, art.split(" #")[0], rec["auth"], fk), dict(rep, artefact=art, form=form))
        for r in obs["requests"]:
            a = r.get("authorization")
            if a is None:
                continue
            if rec["auth"] in ("none", "basic", "digest_unknown"):
                v.violation("credential material is sent without a Digest challenge from the server (server: %s)" % rec["auth"], rep)
                break
            if not a.lower().startswith("digest "):
                v.violation("an Authorization header that is not a digest response is sent", rep)
                break
            if not r.get("digest_ok"):
                v.violation("the Authorization header is not the correct digest response for the key pair", rep)
                break
        # other headers must not carry it either: covered by the scan of the raw request head
        complete = len([i for i in obs.get("outs", {}) if (i + 1) in rec["outs"]]) if obs["level"] == "cli" else 0
        traces.append(ar.events_of(c, obs, complete))
        owners.append(what)
        if rec["auth"] == "reject" and obs["level"] == "cli":
            v.sample({"scenario": what, "stderr": rep["stderr"][:300], "requests": rep["requests"]}, limit=1)
    acc, rej, tstates = sl.validate_traces(traces, module="AtlasTrace", cfg="AtlasTrace.cfg", timeout=1500, max_rounds=15)
    for ti, ei, ev, why in rej:
        v.spec_drift({"trace_of": owners[ti], "rejected_at_event": ei, "event": ev, "trace": traces[ti][:12]})
    shutil.rmtree(root, ignore_errors=True)
    v.cov.update({"states": t.distinct + tstates, "transitions": t.generated, "traces_validated_against_impl": acc, "traces_rejected": len(rej),
                  "exhaustive": True, "environments": len(recs), "runs": len(work), "server_behaviours": list(AUTHS), "key_supplied_by": keyways + ["library arguments"],
                  "encodings_scanned": sorted(ar.key_forms("x" * 8, "y").keys()),
                  "rule": "every terminal state of AtlasMC over 5 server behaviours x fault kinds (status 401/403/404/500 echoing the request head, reset, body cut, "
                          "redaction failure, output path failure) x positions, CLI with the key by flag / environment / mixed and library level; 4 key shapes (URL- "
                          "and base64-sensitive characters, non-ASCII); verdict: no occurrence of the key in any encoding in any artefact; Authorization only as a "
                          "verified digest response and never without a Digest challenge",
                  "trusted_base": ["TLC", "lib/fakeatlas.py (records what crosses the network, verifies the digest)", "lib/atlasreplay.py"]})
    return v.finish()


def replay(path):
    print(open(path).read()[:6000])
    return 0
