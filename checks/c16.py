"""C16 - Atlas mode fetches exactly the requested logs and redacts each into its own file.
Decided by: spec/Atlas.tla model-checked by TLC (RequestsExact, OutIndexIsHost, SuccessIsComplete, NoChallengeNoCredentials) for 1..5
hosts; the fault-free terminal states are replayed through the unmodified CLI behind the fake Atlas endpoint (CONNECT target, request
lines, query strings and Authorization headers recorded on the far side of the network) and through the library entry points;
verdict: request set and order, project / host / window in every URL, downloaded bytes verbatim, and <out>.<i> byte-identical to the
CLI's own redaction of host i's archive under the same flags; the request histories are validated as Atlas behaviours (AtlasTrace)."""
import json, os, shutil, tempfile, time
import common, fakeatlas as fa, streamlib as sl, atlasreplay as ar, atlaslib as al

PID = "C16"
WEEK = 7 * 24 * 3600

FLAGSETS = [("plain", [], False), ("all", ["-n", "-b", "-i", "-w", "-r", "Rr"], False), ("sel", ["-z", "^(name|email)$"], False),
            ("eager", ["-f", sl.NS], False), ("enc", ["-n"], True)]


def judge(v, rec, c, obs, flags_name, flags, start, end, exp, encrypt):
    n = rec["n"]
    what = "%d hosts, auth %s, %s level, flags %s, window %s" % (n, rec["auth"], obs["level"], flags_name, "given" if start else "default")
    reqs = obs["requests"]
    rep = {"scenario": what, "connection_string": c.sc.standard(), "exit": obs.get("rc"),
           "requests": [(r.get("kind"), r.get("target"), bool(r.get("authorization"))) for r in reqs][:40],
           "stderr": (obs.get("stderr") or b"")[:500].decode("utf-8", "replace") if obs["level"] == "cli" else obs.get("err")}
    ok_exit = (obs["rc"] == 0) if obs["level"] == "cli" else not obs.get("failed")
    if not ok_exit:
        v.violation("a fault-free Atlas run fails (%s level)" % obs["level"], rep)
        return
    if obs["level"] == "cli":
        tg = [x.get("target") or x.get("line") for x in obs["connects"]]
        if not tg or any(t != fa.ATLAS_HOST for t in tg):
            v.violation("requests are not sent to the Atlas API endpoint only", dict(rep, connects=tg))
    # --- the request set
    want_targets = ["cluster"] + [h for h, _ in c.names]
    seen = al.project_requests(reqs)
    pos = 0
    per = {}
    for t, a in seen:
        if t not in want_targets:
            v.violation("a request for something that was not asked for: %s" % t, rep)
            return
        while pos < len(want_targets) and want_targets[pos] != t:
            pos += 1
        if pos == len(want_targets):
            v.violation("requests are not in connection-string order (%s out of order)" % t, rep)
            return
        per.setdefault(t, []).append(a)
    for t in want_targets:
        aa = per.get(t, [])
        if rec["auth"] == "digest":
            if sum(1 for a in aa if a) != 1:
                v.violation("%d authenticated requests for %s instead of exactly one" % (sum(1 for a in aa if a), "the cluster description" if t == "cluster" else "a host"), rep)
            if sum(1 for a in aa if not a) > 1 or (aa and aa[-1] is False):
                v.violation("more than one unauthenticated challenge round for one download", rep)
        else:
            if aa != [False]:
                v.violation("without a challenge: %d requests for one target (expected one, without credentials)" % len(aa), rep)
    for r in reqs:
        if r.get("kind") == "cluster":
            if r["project"] != c.sc.project or r["cluster"] != c.sc.cluster:
                v.violation("the cluster request names another project / cluster", rep)
        elif r.get("kind") == "logs":
            if r["project"] != c.sc.project:
                v.violation("a log request names another project", rep)
            q = r["query"]
            try:
                s_, e_ = int(q["startDate"][0]), int(q["endDate"][0])
            except Exception:
                v.violation("a log request carries no startDate / endDate", dict(rep, query=q))
                continue
            if set(q) != {"startDate", "endDate"} or len(q["startDate"]) != 1 or len(q["endDate"]) != 1:
                v.violation("a log request carries other / repeated query parameters", dict(rep, query=q))
            if start:
                if (s_, e_) != (start, end):
                    v.violation("the requested window is not passed on (start %s end %s, asked %s %s)" % (s_, e_, start, end), rep)
            else:
                if e_ - s_ != WEEK or not (obs.get("t0", 0) - 3 <= e_ <= obs.get("t1", 1e18) + 3):
                    v.violation("the default window is not the last seven days (start %s end %s)" % (s_, e_), dict(rep, now=[obs.get("t0"), obs.get("t1")]))
    # --- bytes
    if obs["level"] == "lib":
        cont = obs.get("contents_b64") or []
        for i, (h, _) in enumerate(c.names):
            got = common.unb64(cont[i]) if i < len(cont) and not cont[i].startswith("!") else None
            if got != c.payloads[h]:
                v.violation("the downloaded bytes are not stored verbatim (host %d of %d)" % (i + 1, n), rep)
        files = obs.get("files") or []
        if len(files) != n:
            v.violation("the library returns %d files for %d hosts" % (len(files), n), rep)
    else:
        # temp file sizes seen by the server while the next request waits
        for r in reqs:
            for (name, size) in (r.get("tmp") or []):
                if size not in [len(p) for p in c.payloads.values()]:
                    v.violation("a temp file's size matches no served payload (not stored verbatim)", dict(rep, temp=[name, size]))
                    break
        if sorted(obs["outs"]) != list(range(n)):
            v.violation("the output files are not <out>.0 .. <out>.%d (got %s)" % (n - 1, sorted(obs["outs"])), rep)
        for i in range(n):
            if i in obs["outs"] and exp is not None:
                rc_e, e = exp[i]
                if obs["outs"][i] != e:
                    v.violation("<out>.%d is not the redaction of host %d's log under the active flags (%s)" % (i, i + 1, flags_name),
                                dict(rep, expected_head=e[:600].decode("utf-8", "replace"), actual_head=obs["outs"][i][:600].decode("utf-8", "replace"),
                                     empty_logs=[h for h in c.plain if not c.plain[h]]))
        if encrypt and "enc.key" not in obs["files"]:
            v.violation("an accepted --encrypt Atlas job stores no key file", rep)


def gzip_first_member(data):
    import zlib
    try:
        d = zlib.decompressobj(wbits=31)
        d.decompress(data)
        return data[:len(data) - len(d.unused_data)]
    except Exception:
        return data


def window_behaviours(b, v, tier):
    if "dateseq" not in b.ops:
        return 0, 0
    steps = 5 if tier == "quick" else 6
    cfg = open(os.path.join(common.VERIF, "spec", "WindowMC.cfg")).read().replace("MaxSteps = 5", "MaxSteps = %d" % steps)
    t = common.run_tlc("WindowMC", "WindowMC.cfg", timeout=1500, files={"WindowMC.cfg": cfg})
    if not t.ok:
        raise common.Infra("TLC on Window failed: %s\n%s" % (t.violation, t.out[-1200:]))
    T0, DAY = 1700000000, 86400
    conc = lambda x: 0 if x == 0 else T0 + x * DAY
    seqs, preds = [], []
    for r in t.records:
        seq, pred = [], []
        for st in r["hist"]:
            if st["op"] in ("start", "end"):
                seq.append([st["op"], conc(st["arg"])])
            elif st["op"] == "call":
                seq.append(["call"])
                pred.append((st["res"], sum(1 for x in seq if x[0] != "call") == 0))
        if pred:
            seqs.append(seq)
            preds.append(pred)
    t.records = None
    n = 0
    for ch_s, ch_p in zip(common.chunks(seqs, 20000), common.chunks(preds, 20000)):
        ans = common.run_inproc(b, [{"op": "dateseq", "args": {"seqs": ch_s}}])[0]["result"]
        for seq, pred, res in zip(ch_s, ch_p, ans):
            n += 1
            v.count()
            for ci, ((ms, me), (s_, e_, t0, t1)) in enumerate(zip([p[0] for p in pred], res)):
                clock = 90 <= me < 1000            # the model took this window from the clock (Nows = {100, 103} lie apart from every option value; 20000 is a date in the future)
                want_ok = (e_ - s_ == WEEK and t0 - 2 <= e_ <= t1 + 2) if clock else (s_, e_) == (conc(ms), conc(me))
                first = ci == 0
                given = [x for x in seq[:[i for i, y in enumerate(seq) if y[0] == "call"][0]]]
                last = {}
                for op, *arg in given:
                    last[op] = arg[0]
                rep = {"steps": seq, "call_no": ci + 1, "result": [s_, e_], "clock": [t0, t1]}
                if first and last.get("start", 0) and last.get("end", 0) and (s_, e_) != (last["start"], last["end"]):
                    v.violation("the requested window is altered by the window computation", rep)
                elif first and not last.get("start", 0) and not last.get("end", 0) and not (e_ - s_ == WEEK and t0 - 2 <= e_ <= t1 + 2):
                    v.violation("the default window is not the last seven days", rep)
                elif not want_ok:
                    v.spec_drift(dict(rep, model=[ms, me]))
                    break
    v.nontrivial(("window_behaviours", steps))
    return t.distinct, n


def run(tier):
    v = common.Verdict(PID, tier, "model_checking")
    b = common.build()
    if not b.inproc or "atlas_download" not in b.ops:
        raise common.Infra("in-process atlas driver needed for the library level")
    maxh = 5
    t = ar.run_atlas_mc(maxh, ("digest", "none"), ("none", "status", "reset", "cut"))
    recs = [r for r in t.records if r["fault"]["kind"] == "none" and r.get("keyOk", True)]
    pool = sl.Pool(v.seed)
    root = tempfile.mkdtemp(prefix="c16-", dir=b.root)
    work = []
    nvar = 24 if tier == "quick" else 90
    for r in recs:
        for var in range(nvar):
            fs = FLAGSETS[var % len(FLAGSETS)] if r["cli"] else FLAGSETS[0]
            if r["cli"] or var < (4 if tier == "quick" else 12):
                work.append((r, var, fs))

    def one(args):
        rec, var, (fname, flags, enc) = args
        c = ar.build_case(rec, pool, var + (v.seed - 1) * 13)
        window = (1700000000 + var * 1000, 1700000000 + var * 1000 + 86400 * (1 + var % 5)) if var % 2 == 1 else (None, None)
        if var % 8 == 3:
            # a window that reaches into the future (a job prepared ahead of time): passed on as given
            window = (int(time.time()) - 86400 * (1 + var % 3), int(time.time()) + 86400 * (2 + var % 5))
        if not rec["cli"] and window[0] is None:
            window = (1700000000, 1700600000)       # the library takes the window from its caller
        wd = tempfile.mkdtemp(prefix="w-", dir=root)
        if rec["cli"] and var % 2 == 0 and c.prepare is None:
            # an earlier run with the same -o left longer files behind (and one more than this cluster has members)
            def prep(d, n=rec["n"], on=c.out_name):
                for i in range(n):
                    with open(os.path.join(d, on + ".%d" % i), "wb") as f:
                        f.write(b'{"stale":"line written by an earlier run with the same --outputFile"}\n' * (3000 if i % 2 == 0 else 1))
            c.prepare = prep
        if rec["cli"] and var % 4 == 1 and c.prepare is None and window[0] is not None:
            # an earlier run for the same hosts and the same window was killed before its clean-up: its downloads (other bytes) are still in the
            # temp directory, under the names this tool gives such files
            def plant(d, names=c.names, w=window):
                import gzip as _gz
                for j, (h, _) in enumerate(names):
                    with open(os.path.join(d, "tmp", "mongod_%s_%d_%d_stale0%d.log.gz" % (h, w[0], w[1], j)), "wb") as f:
                        f.write(_gz.compress(b'{"t":{"$date":"2020-01-01T00:00:00.000+00:00"},"s":"I","c":"NETWORK","id":1,"ctx":"stale","msg":"left by an earlier run"}\n' * (j + 1)))
            c.prepare = plant
        obs = ar.run_case(b, c, wd, flags=flags, start=window[0], end=window[1], encrypt=enc)
        exp = None
        if obs["level"] == "cli":
            keyfile = None
            if enc:
                keyfile = os.path.join(wd, "k.key")
                with open(keyfile, "wb") as f:
                    f.write(obs["files"].get("enc.key", b""))
                if "enc.key" not in obs["files"]:
                    os.remove(keyfile)
            exp = ar.expected_outputs(b, c, flags, wd, keyfile=keyfile)
        shutil.rmtree(wd, ignore_errors=True)
        return rec, c, obs, fname, flags, window, exp, enc

    # --- a download that breaks off once and would succeed when asked again: if the tool carries on, every demand still holds
    once_recs = [r for r in t.records if r["fault"]["kind"] == "cut" and r["cli"] and r["auth"] == "digest" and r.get("keyOk", True)]
    seen_env = set()

    def one_once(args):
        rec, var = args
        c = ar.build_case(dict(rec, fault={"at": rec["fault"]["at"], "kind": "cut"}), pool, var + (v.seed - 1) * 13)
        k = c.names[rec["fault"]["at"] - 1][0]
        body = c.payloads[k]
        # cut at a member boundary of a multi-member archive where there is one, else in the middle
        first = len(gzip_first_member(body))
        c.sc.faults[k] = ("cut", first if 0 < first < len(body) else max(1, len(body) // 2), "once")
        wd = tempfile.mkdtemp(prefix="w-", dir=root)
        obs = ar.run_case(b, c, wd)
        exp = ar.expected_outputs(b, c, [], wd) if obs["rc"] == 0 else None
        shutil.rmtree(wd, ignore_errors=True)
        return rec, c, obs, exp
    owork = []
    for r in once_recs:
        key = (r["n"], r["fault"]["at"])
        if key not in seen_env:
            seen_env.add(key)
            owork += [(r, var) for var in (3, 7)]
    for rec, c, obs, exp in common.parallel_map(one_once, owork):
        v.count()
        if obs["rc"] == 0:
            ok_rec = dict(rec, fault={"at": 0, "kind": "none"})
            judge(v, ok_rec, c, obs, "plain (after an interrupted download that succeeded on a second attempt)", [], None, None, exp, False)
    # --- the default window where the local UTC offset changed a few days ago
    import time as _t
    for shift, (ob, oa) in enumerate(((-18000, -14400), (7200, 3600))):
        rec0 = [r for r in recs if r["cli"] and r["n"] == 1 and r["auth"] == "digest"][0]
        c = ar.build_case(rec0, pool, 40 + shift)
        wd = tempfile.mkdtemp(prefix="tz-", dir=root)
        tzp = os.path.join(wd, "zone.tzif")
        ar.make_tzif(tzp, _t.time() - 3 * 86400, ob, oa)
        obs = ar.run_case(b, c, wd, extra_env={"TZ": tzp})
        v.count()
        judge(v, rec0, c, obs, "plain, local zone with an offset change 3 days ago", [], None, None, None, False)
        shutil.rmtree(wd, ignore_errors=True)
    traces, owners = [], []
    for rec, c, obs, fname, flags, window, exp, enc in common.parallel_map(one, work):
        v.count()
        v.nontrivial((rec["n"], rec["auth"], obs["level"], fname, bool(window[0])))
        judge(v, rec, c, obs, fname, flags, window[0], window[1], exp, enc)
        complete = 0
        if obs["level"] == "cli" and exp is not None:
            complete = sum(1 for i in range(rec["n"]) if obs["outs"].get(i) == exp[i][1])
        traces.append(ar.events_of(c, obs, complete))
        owners.append("%d hosts %s %s" % (rec["n"], rec["auth"], obs["level"]))
        if rec["n"] == 3 and rec["cli"] and rec["auth"] == "digest":
            v.sample({"hosts": [hp for _, hp in c.names], "requests": [(r.get("target"), bool(r.get("authorization"))) for r in obs["requests"]],
                      "outputs": sorted(obs["outs"])}, limit=1)
    # host derivation from connection strings (library function, no network)
    cs_cases = []
    for n in range(1, 6):
        for var in range(4):
            names = ar.host_names(n, var)
            cs_cases.append(("mongodb://" + ",".join(hp for _, hp in names) + "/?ssl=true&replicaSet=rs0", [h for h, _ in names]))
            cs_cases.append(("mongodb://user:p%40ss@" + ",".join(hp for _, hp in names) + "/admin", [h for h, _ in names]))
    ans = common.run_inproc(b, [{"op": "hosts", "args": [c for c, _ in cs_cases]}])[0]["result"]
    for (cs, want), a in zip(cs_cases, ans):
        v.count()
        if not a.get("ok") or a.get("hosts") != want:
            v.violation("hosts are not derived from the standard connection string in order with ports stripped", {"connection_string": cs, "expected": want, "got": a})
    # the default window computed by the library
    a = common.run_inproc(b, [{"op": "dates", "args": {"start": 0, "end": 0, "calls": 3}}, {"op": "dates", "args": {"start": 1700000000, "end": 1700600000, "calls": 3}}])
    for x, given in zip(a, (False, True)):
        r = x["result"]
        for (s_, e_) in r["results"]:
            v.count()
            if given and (s_, e_) != (1700000000, 1700600000):
                v.violation("the requested window is altered by the window computation", r)
            if not given and (e_ - s_ != WEEK or abs(e_ - r["now"]) > 5):
                v.violation("the default window is not the last seven days", r)
    # the window computation as a state machine (spec/Window.tla: setters, clock, GetStartAndEndDates with its write-back into the options):
    # every behaviour of the bounded model replayed on the real functions
    wstates, wbeh = window_behaviours(b, v, tier)
    acc, rej, tstates = sl.validate_traces(traces, module="AtlasTrace", cfg="AtlasTrace.cfg", timeout=1500, max_rounds=15)
    for ti, ei, ev, why in rej:
        v.spec_drift({"trace_of": owners[ti], "rejected_at_event": ei, "event": ev, "trace": traces[ti][:14]})
    shutil.rmtree(root, ignore_errors=True)
    v.cov.update({"window_model_states": wstates, "window_behaviours_replayed": wbeh, "states": t.distinct + tstates + wstates, "transitions": t.generated, "traces_validated_against_impl": acc, "traces_rejected": len(rej),
                  "exhaustive": True, "runs": len(work), "max_hosts": maxh, "flag_sets": [f[0] for f in FLAGSETS], "connection_strings": len(cs_cases),
                  "rule": "fault-free terminal states of AtlasMC (1..max hosts x digest / no challenge x CLI / library) x concretisations (ports / no ports / "
                          "odd ports, empty, multi-member and ordinary archives, window given / default, 5 flag sets incl. --encrypt); verdict: CONNECT only to "
                          "cloud.mongodb.com:443; cluster round then one round per host in connection-string order with exactly one authenticated request; project, "
                          "host and window in every URL; library: file bytes = served bytes; CLI: <out>.<i> = `redact <archive i> <flags>` byte for byte",
                  "trusted_base": ["TLC", "lib/fakeatlas.py", "lib/atlasreplay.py", "harness/inproc atlas ops"]})
    v.assumptions.append("mongodb+srv resolution needs DNS and cannot run here: only the non-SRV host derivation is exercised")
    return v.finish()


def replay(path):
    print(open(path).read()[:6000])
    return 0
