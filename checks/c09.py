"""C09 - encrypted values decrypt back to exactly the original.
Decided by: spec/Crypto.tla (one action per stage of `redact --encrypt` and of the `decrypt` command, the cipher axiomatised as a
deterministic AEAD) model-checked by TLC over leaf class x position x key relation x alteration (RoundTrip, NeverWrongPlaintext,
NoPlaintextInOutput); every scenario is replayed end to end through the two real CLI commands with generated strings and fresh key
files, the ciphertext being taken from the exact leaf position of the real output line; the axioms themselves are tested against
the real Encrypt / Decrypt (every single-byte flip and every truncation of sample ciphertexts, wrong keys, lengths 0..8 KiB)."""
import base64, json, os, random, shutil, tempfile
import common, jsonx

PID = "C09"
NS = "dbZn.collZn"


def gen_string(cls, rng, n):
    tok = "S%dq" % n
    if cls == "ascii":
        return "plain secret %s value" % tok
    if cls == "unicode":
        return tok + rng.choice(["-é漢\U0001d4b3ß", " Привет мир", " שלום", " \U0001f600\U0001f468‍\U0001f469", " é ñ", "   "])
    if cls == "empty":
        return ""
    if cls == "emailLower":
        return "user%d.name@example-%d.com" % (n, n % 97)
    if cls == "emailMixed":
        return rng.choice(["Alice.Smith%d@Example.COM", "BOB%d@corp.Example.org", "Carol_%d@MAIL.example.net", "dAvE%d@example.IO"]) % n
    if cls == "digits":
        return "41111111%08d" % n
    if cls == "long":
        return tok + "".join(rng.choice("abcdefghij KLMNOP0123456789äö漢") for _ in range(rng.choice([900, 3000, 8000])))
    if cls == "b64like":
        return base64.b64encode(("payload-%d" % n).encode()).decode()
    if cls == "jsonlike":
        return '{"k":"%s","n":[1,2,{"x":null}]}' % tok
    if cls == "control":
        return tok + rng.choice(["\x01\x02\t\n\r\x1f\x7f\x0b end", " \x1b[31mALERT\x1b[0m level \x1b]0;title\x07 end", "\x1b[2J\x1b[H\x9b1m"])
    if cls == "quotes":
        return 'He said "%s" \\ back/slash \' `tick` <&>' % tok
    if cls == "spaces":
        return "  \t%s with edges \t  " % tok
    if cls == "dollarInside":
        return "US$ %d $x %s$" % (n, tok)
    if cls == "percent":
        return rng.choice(["100%% sure %s", "50%%%% off %d items", "%s%v%d%q %%", "load 99.9%% (%x)", "a%20b%2Fc %!s(MISSING)"]) + " " + tok
    if cls == "priorCiphertext":
        return PRIOR[n % len(PRIOR)] if PRIOR else "bm8gcHJpb3IgY2lwaGVydGV4dA=="
    if cls == "blockAligned":
        # byte length an exact multiple of the cipher's block size, ending in bytes that padding schemes use as markers
        tails = ["\u00c0", "\u4e00", "\u2000", "\u0080", "\x00", "\x00\x00\x00", "\x01", "\x02\x02", "\x10" * 16, "\u00c0\x00", "\x80".encode("latin-1").decode("latin-1")]
        tail = tails[n % len(tails)]
        target = [16, 32, 48, 64, 256][(n // len(tails)) % 5]
        while len(tok.encode()) + len(tail.encode("utf-8")) > target:
            target += 16
        return tok + "x" * (target - len(tok.encode()) - len(tail.encode("utf-8"))) + tail
    if cls == "ipLike":
        return ["10.1.%d.%d" % (n % 250, n % 199), "192.168.%d.7:%d" % (n % 250, 1024 + n), "fe80::%x" % (n + 1), "[2001:db8::%x]:27017" % (n + 1), "::1", "255.255.255.255:65535"][n % 6]
    if cls == "date":
        return "20%02d-0%d-1%dT0%d:34:56.%03dZ" % (n % 90 + 10, n % 9 + 1, n % 9, n % 9, n % 1000)
    if cls == "oid":
        return "%024x" % (0x65f1a2b3c4d5e6f708192a3b + n)
    if cls == "bindata":
        return base64.b64encode(("bytes %d \x00\xff" % n).encode("latin-1")).decode()
    if cls == "bindataLoose":
        # payload text that a lenient base64 decoder accepts but that is not the canonical spelling of its bytes: non-zero padding bits, a line
        # break inside / at the end (MIME style).  The property is about the *string* in the log, not about the bytes it may stand for.
        alphabet = "ABCDEFGHIJKLMNOPQRSTUVWXYZabcdefghijklmnopqrstuvwxyz0123456789+/"
        raw = ("b%d" % n).encode() + bytes(rng.randrange(256) for _ in range(rng.choice([1, 2, 4, 5, 10, 11])))
        t = base64.b64encode(raw).decode()
        how = n % 3
        if how == 0 and t.endswith("="):
            i = len(t.rstrip("=")) - 1
            t = t[:i] + alphabet[alphabet.index(t[i]) | 1] + t[i + 1:]
        elif how == 1:
            t = t[:4] + "\n" + t[4:]
        else:
            t = t[:8] + "\r\n" + t[8:] + "\n"
        return t
    raise ValueError(cls)


PRIOR = []      # ciphertexts produced by an earlier `redact --encrypt` run under the key file of this run


def wrap(cls, s):
    if cls == "date":
        return {"$date": s}, ("$date",)
    if cls == "oid":
        return {"$oid": s}, ("$oid",)
    if cls in ("bindata", "bindataLoose"):
        return {"$binary": {"base64": s, "subType": "00"}}, ("$binary", "base64")
    return s, ()


def line_for(slot, val, idn):
    """Returns (line dict, path of the value inside the line)."""
    f = "fld"
    cmd, path, holder = None, None, "command"
    extra = {}
    if slot == "filterField":
        cmd, path = {"find": "collZn", "filter": {f: val, "other": 5}, "$db": "dbZn"}, ("filter", f)
    elif slot == "inArray":
        cmd, path = {"find": "collZn", "filter": {f: {"$in": ["first", val, 3]}}, "$db": "dbZn"}, ("filter", f, "$in", 1)
    elif slot == "updateSet":
        cmd, path = {"update": "collZn", "updates": [{"q": {"k": 1}, "u": {"$set": {f: val}}}], "$db": "dbZn"}, ("updates", 0, "u", "$set", f)
    elif slot == "updatesPipeU":
        cmd, path = {"update": "collZn", "updates": [{"q": {"k": 1}, "u": [{"$set": {f: val}}]}], "$db": "dbZn"}, ("updates", 0, "u", 0, "$set", f)
    elif slot == "documents":
        cmd, path = {"insert": "collZn", "documents": [{"_id": 1, f: val, "arr": [val]}], "$db": "dbZn"}, ("documents", 0, f)
    elif slot == "match":
        cmd, path = {"aggregate": "collZn", "pipeline": [{"$match": {f: val}}, {"$limit": 5}], "$db": "dbZn"}, ("pipeline", 0, "$match", f)
    elif slot == "exprArray":
        cmd, path = {"find": "collZn", "filter": {"$expr": {"$eq": ["$" + f, val]}}, "$db": "dbZn"}, ("filter", "$expr", "$eq", 1)
    elif slot == "searchQuery":
        cmd, path = {"aggregate": "collZn", "pipeline": [{"$search": {"index": "default", "text": {"query": val, "path": "title"}}}], "$db": "dbZn"}, ("pipeline", 0, "$search", "text", "query")
    elif slot == "famPipe":
        cmd, path = {"findAndModify": "collZn", "query": {"k": 1}, "update": [{"$set": {f: val}}], "$db": "dbZn"}, ("update", 0, "$set", f)
    elif slot == "origFilter":
        cmd, path, holder = {"find": "collZn", "filter": {f: val}, "$db": "dbZn"}, ("filter", f), "originatingCommand"
        extra = {"command": {"getMore": 123456789, "collection": "collZn", "$db": "dbZn"}}
    elif slot == "cmdFilter":
        cmd, path, holder = {"find": "collZn", "filter": {f: val}, "$db": "dbZn"}, ("filter", f), "cmd"
        extra = {"error": {"code": 96}}
    elif slot == "deletesQ":
        cmd, path = {"delete": "collZn", "deletes": [{"q": {f: val}, "limit": 1}], "$db": "dbZn"}, ("deletes", 0, "q", f)
    elif slot == "lookupSub":
        cmd, path = {"aggregate": "collZn", "pipeline": [{"$lookup": {"from": "o", "as": "j", "pipeline": [{"$match": {f: val}}]}}], "$db": "dbZn"}, \
            ("pipeline", 0, "$lookup", "pipeline", 0, "$match", f)
    else:
        raise ValueError(slot)
    attr = {"type": "command", "ns": NS}
    attr.update(extra)
    attr[holder] = cmd
    d = {"t": {"$date": "2025-05-30T09:47:39.001+00:00"}, "s": "I", "c": "COMMAND" if holder != "cmd" else "QUERY", "id": idn, "ctx": "conn1",
         "msg": "Slow query" if holder != "cmd" else "Plan executor error", "attr": attr}
    return d, ("attr", holder) + path


def alter(ct, alt, rng):
    if alt == "none":
        return ct
    if alt == "empty":
        return ""
    if alt == "notb64":
        return "not*base64!" + ct[:6]
    if alt == "b64pad":
        return ct + "="
    if alt == "b64char":
        i = rng.randrange(max(1, len(ct.rstrip("=")) - 1))
        alphabet = "ABCDEFGHIJKLMNOPQRSTUVWXYZabcdefghijklmnopqrstuvwxyz0123456789+/"
        c = alphabet[(alphabet.index(ct[i]) + 1 + rng.randrange(62)) % 64]
        return ct[:i] + c + ct[i + 1:]
    raw = bytearray(base64.b64decode(ct))
    if alt == "flipFirst":
        raw[0] ^= 1 << rng.randrange(8)
    elif alt == "flipMiddle":
        raw[len(raw) // 2] ^= 1 << rng.randrange(8)
    elif alt == "flipLast":
        raw[-1] ^= 1 << rng.randrange(8)
    elif alt == "truncate1":
        raw = raw[:-1]
    elif alt == "truncateHalf":
        raw = raw[:len(raw) // 2]
    elif alt == "extend":
        raw = raw + bytes([rng.randrange(256)])
    return base64.b64encode(bytes(raw)).decode()


def axioms(b, v, tier, seed):
    """The DAEAD axioms of Crypto.tla against the real Encrypt / Decrypt."""
    rng = random.Random(seed)
    keys = [os.urandom(64) for _ in range(3 if tier == "quick" else 6)]
    msgs = [b"", b"a", "é漢".encode(), os.urandom(15), os.urandom(16), os.urandom(17), os.urandom(1000), os.urandom(8192)]
    msgs += [os.urandom(rng.randrange(0, 300)) for _ in range(200 if tier == "quick" else 3000)]
    reqs = [{"op": "enc", "key_b64": common.b64(k), "data_b64": common.b64(m)} for k in keys for m in msgs]
    enc = common.run_inproc(b, [{"op": "crypto", "args": reqs}])[0]["result"]
    cts = {}
    idx = 0
    n = 0
    for ki, k in enumerate(keys):
        for mi, m in enumerate(msgs):
            a = enc[idx]
            idx += 1
            n += 1
            if not a.get("ok"):
                v.violation("Encrypt fails on a valid 64-byte key", {"len": len(m), "err": a.get("err")})
                continue
            cts[(ki, mi)] = common.unb64(a["data_b64"])
    # determinism / injectivity on the sample
    seen = {}
    for (ki, mi), c in cts.items():
        k2 = (ki, c)
        if seen.setdefault(k2, msgs[mi]) != msgs[mi]:
            v.violation("two different plaintexts give the same ciphertext under one key", {})
    dreq, dmeta = [], []
    for (ki, mi), c in cts.items():
        dreq.append({"op": "dec", "key_b64": common.b64(keys[ki]), "data_b64": common.b64(c)})
        dmeta.append(("same", ki, mi, None))
        dreq.append({"op": "dec", "key_b64": common.b64(keys[(ki + 1) % len(keys)]), "data_b64": common.b64(c)})
        dmeta.append(("other", ki, mi, None))
    # every single-byte flip and every truncation of some ciphertexts
    sample = [(0, 0), (0, 1), (0, 2), (1, 4), (1, 5)] + ([(2, 6)] if tier == "thorough" else [])
    sample += [(0, mi) for mi in range(8, 8 + (3 if tier == "quick" else 45))]
    for (ki, mi) in sample:
        c = cts.get((ki, mi))
        if c is None:
            continue
        for i in range(len(c)):
            for bit in ((0, 7) if tier == "quick" else range(8)):
                d = bytearray(c)
                d[i] ^= 1 << bit
                dreq.append({"op": "dec", "key_b64": common.b64(keys[ki]), "data_b64": common.b64(bytes(d))})
                dmeta.append(("flip", ki, mi, i))
        for i in range(len(c)):
            dreq.append({"op": "dec", "key_b64": common.b64(keys[ki]), "data_b64": common.b64(c[:i])})
            dmeta.append(("trunc", ki, mi, i))
    dec = common.run_inproc(b, [{"op": "crypto", "args": dreq}])[0]["result"]
    for a, (kind, ki, mi, pos) in zip(dec, dmeta):
        n += 1
        if kind == "same":
            if not a.get("ok") or common.unb64(a["data_b64"]) != msgs[mi]:
                v.violation("Decrypt(Encrypt(m)) is not m (function level)", {"len": len(msgs[mi]), "answer": a})
        elif a.get("ok"):
            v.violation("Decrypt accepts %s and yields a plaintext" % {"other": "a ciphertext made under another key", "flip": "a ciphertext with a flipped bit",
                                                                       "trunc": "a truncated ciphertext"}[kind], {"position": pos, "len": len(msgs[mi])})
    v.count(n)
    return n


def volume(b, v, tier, wd, key):
    """One run over many lines: thousands of distinct sensitive values, each early value recurring late in the run (and a few values recurring
    all the time); every ciphertext of the real output goes through the real Decrypt and must give the string at the same position of the input."""
    ndistinct = 6000 if tier == "quick" else 60000
    rng = random.Random(v.seed * 13 + 5)
    texts = ["customer-%05d %s" % (i, "é" * (i % 3)) for i in range(ndistinct)]
    order = list(range(ndistinct))
    # recurrences: the first values again after everything else, and hot values sprinkled throughout
    order += list(range(0, 600)) + [rng.randrange(ndistinct) for _ in range(1500)]
    for j in range(0, len(order), 37):
        order.insert(j, j % 5)
    slots = ("filterField", "inArray", "documents", "match", "updateSet")
    lines, want = [], []
    for n, ti in enumerate(order):
        line, path = line_for(slots[n % len(slots)], texts[ti], 500000 + n)
        lines.append(json.dumps(line, ensure_ascii=False, separators=(",", ":")))
        want.append((path, texts[ti]))
    inp, outp = os.path.join(wd, "vol.log"), os.path.join(wd, "vol.out")
    open(inp, "w", encoding="utf-8").write("\n".join(lines) + "\n")
    p = common.run_cli(b, ["redact", inp, "-o", outp, "--encrypt", "-q", key], cwd=wd)
    if p.returncode != 0:
        raise common.Infra("redact --encrypt failed on the volume input: %s" % p.stderr.decode()[:300])
    outl = [l for l in open(outp, encoding="utf-8").read().split("\n") if l]
    if len(outl) != len(lines):
        v.violation("the --encrypt output of a long log does not have one line per input line", {"input_lines": len(lines), "output_lines": len(outl)})
        return 0
    kb64 = open(key).read().strip()
    reqs, meta = [], []
    for n, (l, (path, text)) in enumerate(zip(outl, want)):
        node = jsonx.get(jsonx.parse(l), path)
        if node is None or node[0] != 'str':
            v.violation("the encrypted leaf of a long log is not a string", {"line_no": n, "line": l[:600]})
            continue
        try:
            raw = base64.b64decode(node[1], validate=True)
        except Exception:
            v.violation("the encrypted leaf is not base64 text (long log)", {"line_no": n, "leaf": node[1][:200]})
            continue
        reqs.append({"op": "dec", "key_b64": kb64, "data_b64": common.b64(raw)})
        meta.append((n, text, node[1]))
    ans = common.run_inproc(b, [{"op": "crypto", "args": reqs}])[0]["result"]
    bad = 0
    for a, (n, text, ct) in zip(ans, meta):
        v.count()
        got = common.unb64(a["data_b64"]).decode("utf-8", "replace") if a.get("ok") else None
        if got != text:
            bad += 1
            if bad <= 3:
                v.violation("in a long log a ciphertext does not decrypt to the string it replaced (value first seen %s)" % ("much earlier in the run" if n > ndistinct else "here"),
                            {"line_no": n, "original": text, "decrypts_to": got, "ciphertext": ct[:120], "distinct_values_in_run": ndistinct})
    v.nontrivial(("volume", ndistinct))
    return len(meta)


def snap_path(p):
    """What is at a path: ('absent',) / ('dir', listing) / ('file', bytes, mode)."""
    if not os.path.lexists(p):
        return ("absent",)
    if os.path.isdir(p):
        return ("dir", tuple(sorted(os.listdir(p))))
    return ("file", open(p, "rb").read(), os.stat(p).st_mode & 0o777)


def run(tier):
    v = common.Verdict(PID, tier, "fault_enumeration")
    b = common.build()
    if not b.inproc or "crypto" not in b.ops:
        raise common.Infra("in-process driver needed for the function-level axioms")
    t = common.run_tlc("CryptoMC", "CryptoMC.cfg", timeout=900)
    if not t.ok:
        raise common.Infra("TLC on Crypto failed: %s\n%s" % (t.violation, t.out[-1200:]))
    scen = [r["scen"] | {"ok": r["ok"]} for r in t.records]
    rng = random.Random(v.seed)
    ok_sc = [s for s in scen if s["ok"]]
    bad_sc = [s for s in scen if not s["ok"]]
    if tier == "quick":
        # every alteration x key relation with a covering choice of class / slot, plus every class x slot for the wrong-key case at one slot each
        pick = []
        for i, s in enumerate(sorted(bad_sc, key=lambda s: (s["alt"], s["keyrel"], s["cls"], s["slot"]))):
            if (hash((s["cls"], s["slot"])) + i) % 9 == 0:
                pick.append(s)
        bad_sc = pick
    nstr = 3 if tier == "quick" else 8
    wd = tempfile.mkdtemp(prefix="c09-", dir=b.root)
    # an earlier run under the same key file: its ciphertexts become sensitive strings of this run (class priorCiphertext)
    k1, k2 = os.path.join(wd, "k1.key"), os.path.join(wd, "k2.key")
    first = []
    for j in range(12):
        line, path = line_for("filterField", "earlier secret %d %s" % (j, "é" * (j % 3)), 90000 + j)
        first.append((line, path))
    p0in = os.path.join(wd, "first.log")
    open(p0in, "w", encoding="utf-8").write("\n".join(json.dumps(l, ensure_ascii=False, separators=(",", ":")) for l, _ in first) + "\n")
    p0 = common.run_cli(b, ["redact", p0in, "-o", os.path.join(wd, "first.out"), "--encrypt", "-q", k1], cwd=wd)
    del PRIOR[:]
    if p0.returncode == 0:
        for l, (_, path) in zip(open(os.path.join(wd, "first.out"), encoding="utf-8"), first):
            node = jsonx.get(jsonx.parse(l), path)
            if node and node[0] == 'str':
                PRIOR.append(node[1])
    cases = []
    for s in ok_sc + bad_sc:
        for j in range(nstr if s["ok"] else 1):
            n = len(cases)
            text = gen_string(s["cls"], rng, n)
            val, sub = wrap(s["cls"], text)
            line, path = line_for(s["slot"], val, 100000 + n)
            cases.append({"scen": s, "text": text, "line": line, "path": path + sub, "id": 100000 + n})
    data = "\n".join(json.dumps(c["line"], ensure_ascii=False, separators=(",", ":")) for c in cases) + "\n"
    inp = os.path.join(wd, "in.log")
    open(inp, "w", encoding="utf-8").write(data)
    outp = os.path.join(wd, "out.log")
    # (--replacement is documented as ignored with --encrypt: it is given here, a value the placeholders never take)
    p = common.run_cli(b, ["redact", inp, "-o", outp, "--encrypt", "-q", k1, "--replacement", "<hidden %d>", "-i"], cwd=wd)
    if p.returncode != 0:
        raise common.Infra("redact --encrypt failed on the generated input: %s" % p.stderr.decode()[:400])
    p2 = common.run_cli(b, ["redact", inp, "-o", os.path.join(wd, "o2.log"), "--encrypt", "-q", k2], cwd=wd)
    pp = common.run_cli(b, ["redact", inp], cwd=wd)
    enc_lines = {}
    for l in open(outp, encoding="utf-8"):
        if l.strip():
            tline = jsonx.parse(l)
            enc_lines[int(jsonx.get(tline, ("id",))[1])] = tline
    pl_lines = {}
    for l in pp.stdout.decode("utf-8").split("\n"):
        if l.strip():
            tline = jsonx.parse(l)
            pl_lines[int(jsonx.get(tline, ("id",))[1])] = tline

    def one(c):
        s = c["scen"]
        te, tp = enc_lines.get(c["id"]), pl_lines.get(c["id"])
        if te is None or tp is None:
            return c, "missing", None, None
        ne, np_ = jsonx.get(te, c["path"]), jsonx.get(tp, c["path"])
        if ne is None or np_ is None or np_[0] != 'str':
            return c, "nopath", None, None
        if np_[1] == c["text"] and c["text"] != "":
            return c, "kept", None, None           # placeholder mode keeps this string: outside the property
        if ne[0] != 'str':
            return c, "notstring", ne, None
        ct = ne[1]
        r_ = random.Random(c["id"])
        try:
            value = alter(ct, s["alt"], r_)
        except Exception:
            return c, "notbase64", ct, None
        # what decrypt finds at --decryptionKeyFile (Crypto.tla KeyRels); a private copy per case so that "only reads" can be observed
        kd = tempfile.mkdtemp(prefix="dk-", dir=wd)
        key = os.path.join(kd, "d.key")
        rel = s["keyrel"]
        if rel in ("same", "other"):
            shutil.copy(k1 if rel == "same" else k2, key)
        elif rel == "sameNL":
            open(key, "wb").write(open(k1, "rb").read().rstrip(b"\n") + b"\n")
        elif rel == "empty":
            open(key, "wb").close()
        elif rel == "short":
            open(key, "wb").write(base64.b64encode(os.urandom(32)))
        elif rel == "nonb64":
            open(key, "wb").write(b"this is *not* base64 !!" * 4)
        elif rel == "dir":
            os.mkdir(key)
        before = snap_path(key)
        pr = common.run_cli(b, ["decrypt", "--decryptionKeyFile", key, "--", value], cwd=kd)
        after = snap_path(key)
        extra = sorted(x for x in os.listdir(kd) if x != "d.key")
        shutil.rmtree(kd, ignore_errors=True)
        return c, "ran", ct, (pr.returncode, pr.stdout, pr.stderr, value, before, after, extra)

    n_e2e = 0
    for c, status, ct, res in common.parallel_map(one, cases):
        s = c["scen"]
        v.count()
        sig_pos = "%s at %s" % (s["cls"], s["slot"])
        rep = {"scenario": s, "original": c["text"][:300], "input_line": json.dumps(c["line"], ensure_ascii=False)[:1500], "leaf_path": [str(x) for x in c["path"]]}
        if status == "missing":
            v.violation("a line is missing from the --encrypt output", rep)
            continue
        if status in ("nopath", "kept"):
            continue
        if status in ("notstring", "notbase64"):
            v.violation("the encrypted leaf is not base64 text (%s)" % sig_pos, dict(rep, leaf=str(ct)[:200]))
            continue
        if ct == c["text"] and c["text"] != "":
            v.violation("a string that placeholder mode replaces is emitted in clear with --encrypt (%s)" % sig_pos, rep)
            continue
        rc, so, se, value, kbefore, kafter, kextra = res
        n_e2e += 1
        if kbefore != kafter or kextra:
            v.violation("the decrypt command changes what is at --decryptionKeyFile (%s key file)" % s["keyrel"],
                        dict(rep, key_path_before=str(kbefore)[:200], key_path_after=str(kafter)[:200], new_files=kextra))
        v.nontrivial((s["cls"], s["slot"], s["keyrel"], s["alt"]))
        rep.update({"ciphertext": ct[:200], "value_given_to_decrypt": value[:200], "exit": rc, "stdout": so.decode("utf-8", "replace")[-600:], "stderr": se.decode("utf-8", "replace")[:300]})
        marker = b"Raw value: "
        if s["cls"] in ("unicode", "emailMixed", "priorCiphertext") or s["alt"] == "flipMiddle":
            v.sample({"scenario": s, "original": c["text"][:120], "ciphertext_in_output": ct[:120], "value_given_to_decrypt": value[:120], "decrypt_exit": rc,
                      "decrypt_stdout_tail": so.decode("utf-8", "replace")[-160:]}, limit=3)
        if s["ok"]:
            want = marker + c["text"].encode("utf-8") + b"\n"
            i = so.find(marker)
            if rc != 0 or i < 0 or so[i:] != want:
                v.violation("decrypt does not give back exactly the original string (%s)" % sig_pos, rep)
        else:
            what = ("another key" if s["keyrel"] == "other" else "no usable key file (%s)" % s["keyrel"]) if s["keyrel"] not in ("same", "sameNL") and s["alt"] == "none" else "an altered ciphertext (%s)" % s["alt"]
            if rc == 0:
                v.violation("decrypt with %s exits 0" % what, rep)
            elif marker in so:
                v.violation("decrypt with %s prints a plaintext" % what, rep)
    nax = axioms(b, v, tier, v.seed)
    nvol = volume(b, v, tier, wd, k1)
    shutil.rmtree(wd, ignore_errors=True)
    v.cov.update({"states": t.distinct, "transitions": t.generated, "scenarios_in_model": len(scen), "scenarios_replayed_end_to_end": n_e2e,
                  "function_level_axiom_evaluations": nax, "long_log_ciphertexts_decrypted": nvol, "classes": sorted(set(s["cls"] for s in scen)), "positions": sorted(set(s["slot"] for s in scen)),
                  "alterations": sorted(set(s["alt"] for s in scen)), "faults_enumerated": len([s for s in scen if not s["ok"]]),
                  "rule": "model: 17 leaf classes x 13 positions x {same, other key} x 11 alterations; replay: all round-trip scenarios with several generated strings each "
                          "and (quick) a covering ninth of the failing scenarios / (thorough) all of them, end to end: `redact --encrypt` with a fresh key file, the "
                          "ciphertext taken from the exact leaf position, altered, handed to `decrypt`; verdict: exit 0 and `Raw value: <original>` byte for byte, or "
                          "exit != 0 and no `Raw value:`; one long log (6000, thorough 60000, distinct values, early values recurring late) with every ciphertext decrypted; axioms: round trip, wrong key, every single-bit flip (quick: 2 bits per byte) and truncation of sample "
                          "ciphertexts against the real functions",
                  "trusted_base": ["TLC", "lib/jsonx.py", "harness/inproc crypto op", "the cipher axioms (tested, not proved)"]})
    v.assumptions.append("the cryptographic strength of AES-SIV is not decided by TLA+: the DAEAD axioms are stated in spec/Crypto.tla and tested on the real functions")
    return v.finish()


def replay(path):
    print(open(path).read()[:6000])
    return 0
