"""C18 - redact accepts exactly the well-defined jobs; rejections have no side effects.
Decided by: spec/Cli.tla (one action per validation check of main.go in code order, then the side effects in code order) model-checked
by TLC over all 2^13 switch combinations against a three-valued rule table written from the README and the statement
(AcceptIffWellDefined, RejectionIsPure, RunsItsSource, EffectOrder); every one of the 8192 terminal states is replayed through the
real CLI in a private directory, with a fake Atlas endpoint behind HTTPS_PROXY as network witness; exit status, stderr, directory
snapshot and CONNECT log are judged against the rule table; strace'd runs are validated as behaviours of Cli (CliTrace)."""
import gzip, json, os, random, re, shutil, subprocess, tempfile, threading
import common, fakeatlas as fa, streamlib as sl

PID = "C18"
SWITCHES = ["file", "stdin", "out", "enc", "regexp", "names", "proj", "cluster", "pub", "priv", "start", "end", "envkeys"]


def rule(on):
    s = lambda k: k in on
    atlas_src = s("proj") and s("cluster")
    atlas_any = any(s(k) for k in ("proj", "cluster", "pub", "priv", "start", "end"))
    keypair = (s("pub") or s("envkeys")) and (s("priv") or s("envkeys"))
    nsrc = int(s("file")) + int(s("stdin")) + int(atlas_src)
    must_reject = ((s("regexp") and s("names")) or (s("start") != s("end")) or (s("proj") != s("cluster")) or nsrc != 1
                   or (atlas_src and not (s("out") and keypair)) or (s("enc") and (s("stdin") or (s("file") and not s("out")))))
    if must_reject:
        return "reject"
    if (atlas_any and not atlas_src) or (s("enc") and atlas_src):
        return "either"
    return "accept"


class Runner:
    """One fake Atlas endpoint per worker thread; runs are sequential within a worker, so CONNECTs are attributable."""

    def __init__(self, b, root, pool, preexisting):
        self.b, self.root, self.preexisting = b, root, preexisting
        lines = sl.concretise(pool, ["cmd", "oth", "cmd"], 1, 3)
        self.data = sl.file_bytes(lines, True, False)
        self.sc = fa.Scenario(conn_hosts=["h1.example.net:27017"], payloads={"h1.example.net": gzip.compress(self.data, mtime=0)})
        self.local = threading.local()
        self.expected = None

    def atlas(self):
        if not hasattr(self.local, "f"):
            self.local.f = fa.FakeAtlas(self.sc)
        return self.local.f

    def run(self, on, idx, strace=False, stdin_kind="pipe"):
        on = set(on)
        d = tempfile.mkdtemp(prefix="c18-%d-" % idx, dir=self.root)
        tmp = os.path.join(d, "tmp")
        os.mkdir(tmp)
        inp = os.path.join(d, "in.log")
        with open(inp, "wb") as f:
            f.write(self.data)
        pre = {}
        if self.preexisting:
            pre["out.log"] = b"PRE-EXISTING OUTPUT\n"
            pre["anonymongo.enc.key"] = common.b64(bytes(range(64))).encode()
            for n, c in pre.items():
                with open(os.path.join(d, n), "wb") as f:
                    f.write(c)
        args = ["redact"]
        if "file" in on: args.append("in.log")
        if "out" in on: args += ["-o", "out.log"]
        if "enc" in on: args += ["--encrypt"]
        # no other flag is ever added: the key file is the default ./anonymongo.enc.key in the run's own directory (cwd), so a stray
        # key file shows up in the directory snapshot, and the all-absent combination really has an empty command line
        if "regexp" in on: args += ["-z", "^name$"]
        if "names" in on: args += ["-f", sl.NS]
        if "proj" in on: args += ["--atlasProjectId", self.sc.project]
        if "cluster" in on: args += ["--atlasClusterName", self.sc.cluster]
        if "pub" in on: args += ["--atlasPublicKey", self.sc.public]
        if "priv" in on: args += ["--atlasPrivateKey", self.sc.private]
        empty_valued = []
        if idx % 5 == 2:
            # "not given" spelled as a flag with an empty value (a script that expands an unset variable): still not a project / cluster / key
            for sw, fl in (("proj", "--atlasProjectId"), ("cluster", "--atlasClusterName"), ("pub", "--atlasPublicKey"), ("priv", "--atlasPrivateKey")):
                if sw not in on and (idx // 5 + len(sw)) % 2 == 0:
                    args += [fl, ""]
                    empty_valued.append(fl)
        if "start" in on: args += ["-s", "1700000000"]
        if "end" in on: args += ["-e", "1700600000"]
        f = self.atlas()
        env = dict(f.env(), TMPDIR=tmp)
        env_empty = False
        if "envkeys" in on:
            env.update(ATLAS_PUBLIC_KEY=self.sc.public, ATLAS_PRIVATE_KEY=self.sc.private)
        elif idx % 3 == 1:
            # "no key pair in the environment" spelled the way CI systems spell a secret that is not available: exported, but empty
            env.update(ATLAS_PUBLIC_KEY="", ATLAS_PRIVATE_KEY="")
            env_empty = True
        c0, l0 = len(f.connects), len(f.log)
        before = set(os.listdir(d))
        e = dict(os.environ)
        for k in ("ATLAS_PUBLIC_KEY", "ATLAS_PRIVATE_KEY", "HTTPS_PROXY", "HTTP_PROXY", "https_proxy", "http_proxy", "SSL_CERT_FILE", "ANONYMONGO_VERSION"):
            e.pop(k, None)
        e.update(env)
        cmd = [self.b.cli] + args
        st = os.path.join(d, "strace.log")
        if strace:
            cmd = ["strace", "-f", "-qq", "-o", st, "-e", "trace=openat,connect,read,exit_group"] + cmd
        sin = None
        try:
            if "stdin" in on and stdin_kind == "file":
                sp = os.path.join(tmp, "..", "stdin.log")
                with open(sp, "wb") as sf:
                    sf.write(self.data)
                before.add("stdin.log")
                sin = open(sp, "rb")
                kw = {"stdin": sin}
            elif "stdin" in on and stdin_kind == "emptyfile":
                sp = os.path.join(tmp, "..", "stdin.log")
                open(sp, "wb").close()
                before.add("stdin.log")
                sin = open(sp, "rb")
                kw = {"stdin": sin}
            elif "stdin" in on and stdin_kind == "socket":
                # what a supervisor / node's child_process hands to a child as its stdin: one end of a UNIX socket pair
                import socket as _so
                a_, b_ = _so.socketpair()
                a_.sendall(self.data)
                a_.shutdown(_so.SHUT_WR)
                sin = b_
                kw = {"stdin": b_.fileno()}
                self._keep = a_
            elif "stdin" in on:
                # a pipe is a pipe, whatever arrives through it: "emptypipe" is a producer that writes nothing
                kw = {"input": b"" if stdin_kind == "emptypipe" else self.data}
            else:
                kw = {"stdin": subprocess.DEVNULL}
            p = subprocess.run(cmd, cwd=d, env=e, capture_output=True, timeout=120, **kw)
        except subprocess.TimeoutExpired:
            raise common.Infra("CLI timed out on switches %s" % sorted(on))
        finally:
            if sin:
                sin.close()
        after = set(os.listdir(d))
        new = sorted(after - before - {"strace.log"})
        changed = []
        for n, c in pre.items():
            try:
                if open(os.path.join(d, n), "rb").read() != c:
                    changed.append(n)
            except OSError:
                changed.append(n)
        obs = {"on": sorted(on), "args": args, "stdin_kind": stdin_kind if "stdin" in on else "/dev/null", "empty_key_variables_exported": env_empty, "flags_given_with_empty_value": empty_valued, "rc": p.returncode, "stderr": p.stderr.decode("utf-8", "replace"), "stdout": p.stdout,
               "new_files": new, "changed_files": changed, "tmp_left": sorted(os.listdir(tmp)),
               "connects": [c.get("target") or c.get("line") for c in f.connects[c0:]], "requests": len(f.log) - l0}
        out_file = None
        for n in ("out.log", "out.log.0"):
            pth = os.path.join(d, n)
            if os.path.exists(pth):
                obs[n] = open(pth, "rb").read()
        if strace and os.path.exists(st):
            obs["events"] = self.events(open(st, errors="replace").read(), f.port)
        shutil.rmtree(d, ignore_errors=True)
        return obs

    @staticmethod
    def events(text, port):
        ev, seen = [], set()

        def add(w):
            if w not in seen:
                seen.add(w)
                ev.append({"ev": "Effect", "what": w})
        code = None
        for line in text.split("\n"):
            m = re.match(r"^\d+\s+(\w+)\((.*)", line)
            if not m:
                continue
            call, rest = m.group(1), m.group(2)
            if call == "openat":
                if '"out.log' in rest and "O_CREAT" in rest:
                    add("outCreated")
                elif 'anonymongo.enc.key"' in rest:
                    add("keyStage")
                elif '"in.log"' in rest:
                    add("stream")
            elif call == "read" and rest.startswith("0,"):
                add("stream")
            elif call == "connect" and ("htons(%d)" % port) in rest:
                add("net")
            elif call == "exit_group":
                mm = re.match(r"(\d+)", rest)
                code = int(mm.group(1)) if mm else None
        ev.append({"ev": "End", "code": code if code is not None else -1})
        return ev


def judge(v, obs, rl, expected_out, preexisting):
    on = set(obs["on"])
    rep = {k: (x if not isinstance(x, bytes) else x.decode("utf-8", "replace")[:1500]) for k, x in obs.items() if k != "events"}
    rep["rule"] = rl
    sig_sw = ("+".join(obs["on"]) or "(none)") + ({"file": " [stdin < file]", "emptyfile": " [stdin < empty file]", "emptypipe": " [stdin: a pipe nothing is written to]", "socket": " [stdin: a UNIX socket]"}.get(obs.get("stdin_kind"), "")) \
        + (" [ATLAS_*_KEY exported but empty]" if obs.get("empty_key_variables_exported") else "") \
        + (" [%s given with an empty value]" % ", ".join(obs["flags_given_with_empty_value"]) if obs.get("flags_given_with_empty_value") else "")
    if str(obs.get("stdin_kind", "")).startswith("empty"):
        expected_out = b""
    rejected = obs["rc"] != 0
    atlas_src = "proj" in on and "cluster" in on
    if rl == "reject" and not rejected:
        v.violation("an ill-defined job is accepted (exit 0): %s" % sig_sw, rep)
        return
    if rl == "accept" and rejected:
        v.violation("a well-defined job is refused (exit %d): %s" % (obs["rc"], sig_sw), rep)
        return
    if rejected:
        if not obs["stderr"].strip():
            v.violation("a rejection gives no explanatory message: %s" % sig_sw, rep)
        eff = []
        if obs["new_files"]:
            eff.append("creates " + ",".join(obs["new_files"]))
        if obs["changed_files"]:
            eff.append("truncates/changes " + ",".join(obs["changed_files"]))
        if obs["connects"] or obs["requests"]:
            eff.append("sends a network request")
        if obs["tmp_left"]:
            eff.append("leaves temp files")
        if eff:
            v.violation("a rejection decided from the flags alone %s: %s" % ("; ".join(eff), sig_sw), rep)
        return
    # accepted: must run as the job of its single source
    if atlas_src:
        if any(c != fa.ATLAS_HOST for c in obs["connects"]) or not obs["connects"]:
            v.violation("an accepted Atlas job does not talk to the Atlas endpoint only: %s" % sig_sw, rep)
        elif obs.get("out.log.0") is None:
            v.violation("an accepted Atlas job writes no <outputFile>.0: %s" % sig_sw, rep)
    else:
        if obs["connects"] or obs["requests"]:
            v.violation("a file / stdin job sends a network request: %s" % sig_sw, rep)
        got = obs.get("out.log") if "out" in on else obs["stdout"]
        if "enc" not in on and "regexp" not in on and "names" not in on and got != expected_out:
            v.violation("an accepted file / stdin job does not produce the redaction of its input: %s" % sig_sw, rep)
        elif got is None or (got.count(b"\n") != expected_out.count(b"\n")):
            v.violation("an accepted file / stdin job does not produce one line per input object line: %s" % sig_sw, rep)
        if "enc" in on and "anonymongo.enc.key" not in obs["new_files"] and not preexisting:
            v.violation("an accepted --encrypt job stores no key file: %s" % sig_sw, rep)


def run(tier):
    v = common.Verdict(PID, tier, "model_checking")
    b = common.build(need_inproc=False)
    t = common.run_tlc("CliMC", "CliMC.cfg", timeout=900)
    if not t.ok:
        raise common.Infra("TLC on Cli failed: %s\n%s" % (t.violation, t.out[-1200:]))
    recs = t.records
    if len(recs) != 8192:
        raise common.Infra("expected 8192 terminal states of Cli, got %d" % len(recs))
    # vacuity guard: every rejecting check and both accepting paths are exercised by the model
    # the composition Cli -> KeyFile -> Stream (spec/Run.tla): cross-module invariants of one non-Atlas run
    trun = common.run_tlc("Run", "Run.cfg", timeout=900, want_records=False)
    if not trun.ok:
        raise common.Infra("TLC on the composition Run.tla failed: %s\n%s" % (trun.violation, trun.out[-1200:]))
    reasons = set(r["reason"] for r in recs)
    if len(reasons) < 12:
        raise common.Infra("vacuous model: only %d rejection reasons reached" % len(reasons))
    root = tempfile.mkdtemp(prefix="c18-", dir=b.root)
    pool = sl.Pool(v.seed)
    rng = random.Random(v.seed)
    passes = [False, True]
    traces, owners = [], []
    n_strace = 0
    for preexisting in passes:
        R = Runner(b, root, pool, preexisting)
        exp = sl.cli_channel_run(b, R.data, sl.SCfg("p", [], {}), "file", "stdout", root, "exp")["out"]
        order = list(range(len(recs)))
        # strace a sample (quick) or everything (thorough, first pass)
        if tier == "quick" and preexisting:
            # second pass of the quick tier: the combinations that must be rejected and name an output file, in a directory where that file
            # (and a key file) already exist with contents
            order = [i for i in order if recs[i]["rule"] == "reject" and "out" in recs[i]["on"]]
            st = set()
        elif tier == "quick":
            st = set(i for i in order if recs[i]["verdict"] == "accepted") | set(rng.sample(order, 700))
        else:
            st = set(order) if not preexisting else set()

        def one(i):
            return i, R.run(recs[i]["on"], i, strace=(i in st))

        # "piped stdin" also means `< file`: the combinations with stdin again, with stdin redirected from a regular file
        with_stdin = [i for i in order if "stdin" in recs[i]["on"]]
        if tier == "quick" and preexisting:
            with_stdin = []
        elif tier == "quick":
            with_stdin = [i for i in with_stdin if recs[i]["rule"] != "reject"] + rng.sample([i for i in with_stdin if recs[i]["rule"] == "reject"], 1200)

        def one_file(i):
            return i, R.run(recs[i]["on"], 100000 + i, stdin_kind="file")

        def one_empty(i):
            return i, R.run(recs[i]["on"], 200000 + i, stdin_kind=("emptypipe", "emptyfile", "socket")[i % 3])
        with_empty = with_stdin if tier != "quick" else [i for i in with_stdin if recs[i]["rule"] != "reject"] + [i for i in with_stdin if recs[i]["rule"] == "reject"][:600]
        results = common.parallel_map(one, order) + common.parallel_map(one_file, with_stdin) + common.parallel_map(one_empty, with_empty)
        for i, obs in results:
            rec = recs[i]
            v.count()
            rl = rule(set(rec["on"]))
            if rl != rec["rule"]:
                raise common.Infra("rule table of the judge and of Cli.tla disagree on %s" % rec["on"])
            judge(v, obs, rl, exp, preexisting)
            if rl != "reject":
                v.nontrivial(("ok", tuple(sorted(rec["on"]))))
            v.nontrivial(("r", rec["reason"]))
            # drift: the specification's verdict vs the real one
            real = "rejected" if obs["rc"] != 0 else "accepted"
            if real != rec["verdict"]:
                v.spec_drift({"switches": rec["on"], "spec": rec["verdict"], "real": real, "stderr": obs["stderr"][:200]})
            if "events" in obs:
                n_strace += 1
                traces.append([{"ev": "Init", "on": sorted(rec["on"])}] + obs["events"])
                owners.append(sorted(rec["on"]))
            if i == 4242 and not preexisting:
                v.sample({"switches": rec["on"], "rule": rl, "exit": obs["rc"], "stderr": obs["stderr"][:200], "new_files": obs["new_files"]})
    acc, rej, tstates = sl.validate_traces(traces, module="CliTrace", cfg="CliTrace.cfg", timeout=1500, max_rounds=20)
    for ti, ei, ev, why in rej:
        v.spec_drift({"trace_of_switches": owners[ti], "rejected_at_event": ei, "event": ev, "trace": traces[ti]})
    shutil.rmtree(root, ignore_errors=True)
    v.cov.update({"composition_states_Run_tla": trun.distinct, "states": t.distinct + tstates, "transitions": t.generated, "traces_validated_against_impl": acc, "traces_rejected": len(rej),
                  "exhaustive": True, "switch_combinations_replayed": len(recs) * len(passes), "straced_runs": n_strace,
                  "rule_rows": {"reject": sum(1 for r in recs if r["rule"] == "reject"), "either": sum(1 for r in recs if r["rule"] == "either"),
                                "accept": sum(1 for r in recs if r["rule"] == "accept")},
                  "passes": ["fresh directory"] + (["pre-existing output file and key file"] if tier == "thorough" else []),
                  "rule": "all 2^13 combinations of {file, piped stdin, -o, --encrypt, -z, -f, project, cluster, public key, private key, start, end, key pair in env} "
                          "through the real CLI; MUST-REJECT: exit != 0, message, no new / changed file, no CONNECT; MUST-ACCEPT: exit 0 and the job of its "
                          "single source (file/stdin: no CONNECT, output = redaction; Atlas: CONNECT only to cloud.mongodb.com:443, <out>.0 written); EITHER: "
                          "one of the two, consistently",
                  "trusted_base": ["TLC", "lib/fakeatlas.py (network witness)", "strace", "the rule table (README + statement)"]})
    return v.finish()


def replay(path):
    d = json.load(open(path))
    print(json.dumps(d, indent=1)[:6000])
    return 0
