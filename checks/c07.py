"""C07 - no line content can crash or abort a run.
Decided by three bindings of the specification to the code:
 (1) spec/Stream.tla: TLC enumerates every sequence of line kinds (objects, blank, whitespace, text, top-level array / scalar,
     truncated object, trailing garbage, legacy text line, over-long line) - invariants OnlyTooLongStops, LongNeverEmitted,
     OutputIsMap, Terminates - and every terminal state is replayed through the real CLI under flag sets incl. field-name, selective
     and encryption modes; the executions are validated as Stream behaviours (StreamTrace: the specification has no crash action, so
     a crash is a trace without a legal End event).
 (2) spec/RedactorTW.tla / RedactorEW.tla: every operator-table entry at every depth x every value shape, incl. extended-JSON
     wrappers holding numbers, null, arrays, documents, and damaged envelopes, batched through the real CLI; a batch that dies is
     bisected to the line that kills it.
 (3) mutation driver: byte / token mutations of real lines (thorough: many more), each placed between two ordinary lines; and
     nesting probes up to and beyond the reader's line limit (the limit itself is measured, not assumed)."""
import json, multiprocessing, os, random, re, shutil, subprocess, tempfile
import common, jsonx, l3, streamlib as sl

PID = "C07"
KINDS = ("cmd", "oth", "blank", "ws", "txt", "arr", "scalar", "trunc", "trail", "legacy", "long")
CRASH_RE = re.compile(r"(^panic:|^fatal error:|goroutine \d+ \[|runtime error|SIGSEGV|stack overflow)", re.M)
_G = {}


def crash_signature(rc, stderr):
    return rc not in (0, 1) or bool(CRASH_RE.search(stderr or ""))


def judge_sequence(lines, out_bytes, rc, stderr, singles, cfg):
    """The predicate of C07 on one multi-line run. Returns None or (what, detail)."""
    # a "long" line is above the default 64 KiB scanner limit; if this build reads it fine on its own (a raised limit is
    # legitimate) it is an ordinary object line, otherwise it is the one allowed stop
    has_long = [i for i, (k, t, _) in enumerate(lines) if k == "long" and singles.get(cfg, t)["rc"] != 0]
    if crash_signature(rc, stderr):
        return "the run crashes (exit %s)" % rc, stderr[-600:]
    whole, rest = sl.out_lines(out_bytes or b"")
    if rest:
        return "the output ends in a partial line", rest[-200:].decode("utf-8", "replace")
    upto = has_long[0] if has_long else len(lines)
    if has_long:
        if rc == 0:
            return "a line above the reader's limit does not end the run with an error", ""
        if not (stderr or "").strip():
            return "a line above the reader's limit stops the run without an explanatory message", ""
        for w in whole:
            if b"LLLLLLLLLLLLLLLLLLLLLLLLLLLLLLLLLLLLLLLLLLLLLLLLLLLLLLLLLLLLLLLL" in w:
                return "an over-long line was passed through or truncated into the output", w[:200].decode("utf-8", "replace")
    elif rc != 0:
        return "the run stops with exit %s although no line exceeds the reader's limit" % rc, stderr[-400:]
    # every line before the stop is processed as usual: object lines give their usual output, any other line at most one well-formed line
    j = 0
    for i in range(upto):
        k, t, _ = lines[i]
        if k in sl.OBJ_KINDS or k == "long":
            exp = singles.get(cfg, t)["out"]
            if j >= len(whole) or whole[j] != exp:
                return "an ordinary line next to a bad line is not processed as usual (line %d of %d)" % (i + 1, len(lines)), \
                       (whole[j] if j < len(whole) else b"<missing>")[:300].decode("utf-8", "replace")
            j += 1
        else:
            # at most one well-formed line for a bad line
            nxt = None
            for i2 in range(i + 1, upto):
                if lines[i2][0] in sl.OBJ_KINDS or lines[i2][0] == "long":
                    nxt = singles.get(cfg, lines[i2][1])["out"]
                    break
            if j < len(whole) and whole[j] != nxt:
                if not sl.is_object_line(whole[j].decode("utf-8", "replace")):
                    return "a bad line yields output that is not a well-formed JSON object line", whole[j][:300].decode("utf-8", "replace")
                j += 1
    if j != len(whole) and not has_long:
        return "more output lines than input lines allow (%d extra)" % (len(whole) - j), whole[j][:300].decode("utf-8", "replace")
    return None


def work(args):
    chunk_no, recs = args
    G = _G
    b, pool, cfgs, seed = G["b"], G["pool"], G["cfgs"], G["seed"]
    wd = tempfile.mkdtemp(prefix="c07-%d-" % chunk_no, dir=b.root)
    res = {"evals": 0, "viol": [], "drift": [], "traces": [], "nontrivial": set()}
    try:
        cases = []
        for seq_no, rec in recs:
            lines = sl.concretise(pool, rec["input"], 1 + (seed - 1) * 7 + seq_no % 3, seq_no)
            cases.append((seq_no, rec, lines))
        singles = sl.Singles(b, wd)
        for cfg in cfgs:
            singles.need(cfg, [t for _, _, lines in cases for (k, t, _) in lines if k in sl.OBJ_KINDS or k == "long"])
        # "that line yields at most one well-formed output line" holds for every line, the ordinary ones included
        for (cname, text), r1 in singles.cache.items():
            if r1["rc"] != 0 or text.startswith(("\ufeff",)):
                continue
            whole1, rest1 = sl.out_lines(r1["out"] or b"")
            res["evals"] += 1
            if rest1 or len(whole1) > 1 or (whole1 and not sl.is_object_line(whole1[0].decode("utf-8", "replace"))):
                if len(res["viol"]) < 5:
                    res["viol"].append(("a line run alone yields output that is not one well-formed JSON object line cfg=%s" % cname,
                                        {"flags": [c.flags for c in cfgs if c.name == cname][0], "line": text[:3000], "output": (r1["out"] or b"")[:3000].decode("utf-8", "replace")}))
        for ci, (seq_no, rec, lines) in enumerate(cases):
            ids = [i for _, _, i in lines]
            cfg = cfgs[(seq_no + ci) % len(cfgs)]
            if any(singles.get(cfg, t)["rc"] != 0 for k, t, _ in lines if k in sl.OBJ_KINDS):
                continue
            for k, t, _ in lines:
                if k == "long":
                    s1 = singles.get(cfg, t)
                    if crash_signature(s1["rc"], s1["stderr"]) and len(res["viol"]) < 5:
                        res["viol"].append(("a long line crashes the run cfg=%s" % cfg.name, {"flags": cfg.flags, "exit": s1["rc"], "stderr": s1["stderr"][-600:], "line_bytes": len(t)}))
            data = sl.file_bytes(lines, rec["finalNL"], False)
            ic, oc = [("file", "file"), ("gz", "file")][ci % 2] if rec["bar"] else [("file", "stdout"), ("stdin", "stdout"), ("gz", "stdout"), ("stdin", "file")][ci % 4]
            if cfg.name == "enc":
                ic, oc = ("file", "file")
            r = sl.cli_channel_run(b, data, cfg, ic, oc, wd, "c%d" % ci)
            res["evals"] += 1
            bad = judge_sequence(lines, r["out"], r["rc"], r["stderr"], singles, cfg)
            if bad:
                res["viol"].append(("%s kinds=%s cfg=%s" % (bad[0], ",".join(rec["input"]), cfg.name),
                                    {"flags": cfg.flags, "in_channel": ic, "out_channel": oc, "kinds": rec["input"], "final_newline": rec["finalNL"],
                                     "input_head": data.decode("utf-8", "replace")[:3000], "exit": r["rc"], "stderr": r["stderr"][-800:], "detail": bad[1]}))
            if any(k not in sl.OBJ_KINDS for k in rec["input"]):
                res["nontrivial"].add((tuple(rec["input"]), cfg.name))
            if cfg.name == "plain" and (rec["bar"] == (oc == "file" and ic != "stdin")):
                status = "ok" if r["rc"] == 0 else "failed"
                if crash_signature(r["rc"], r["stderr"]):
                    status = "crashed"
                res["traces"].append((sl.events_from_output(sl.env_of(rec), r["out"], ids, status), "cli %s->%s kinds=%s" % (ic, oc, ",".join(rec["input"]))))
    finally:
        shutil.rmtree(wd, ignore_errors=True)
    res["nontrivial"] = list(res["nontrivial"])
    return res


# ------------------------------------------------------------------ (2) walker level: every table entry x every value shape
def judge_l3(byc, res):
    for name, r in byc.items():
        if r.crash:
            c = r.crash
            sig = "a line kills the run (exit %s: %s) at %s flags=%s" % (
                c.get("exit"), (CRASH_RE.search(c.get("stderr") or "") or re.search(r".{0,60}", c.get("stderr") or "")).group(0)[:60],
                l3.abstract_path(tuple(lf.path for lf in r.leaves)[-1]) if r.leaves else "?", " ".join(r.cfg.flags()))
            l3.add_violation(res, sig, r, {"stderr": (c.get("stderr") or "")[-1200:]})
        elif r.raw is not None:
            res["nontrivial"].add(hash((name, len(r.raw) % 97, r.rec["g"])) & 0xffffffffffff)


def l3_cfgs(tier):
    cs = [l3.Cfg("base"), l3.Cfg("all", num=True, bool=True, ips=True, ns=True),
          l3.Cfg("eager", eager=True, ns=True, num=True), l3.Cfg("sel", re="unanch", bool=True), l3.Cfg("enc", encrypt=True, num=True)]
    if tier == "thorough":
        cs += [l3.Cfg("sela", re="anch", num=True, ns=True), l3.Cfg("eagerenc", eager=True, encrypt=True)]
    return cs


# ------------------------------------------------------------------ (3) mutation driver and nesting / limit probes
def mutate(rng, text):
    b = bytearray(text.encode("utf-8"))
    n = rng.choice([1, 1, 2, 3])
    for _ in range(n):
        op = rng.randrange(9)
        if not b:
            break
        i = rng.randrange(len(b))
        if op == 0:
            del b[i]
        elif op == 1:
            b[i] = rng.choice(b'{}[]",:\\0-9etnu. $')
        elif op == 2:
            b[i:i] = rng.choice([b"{", b"}", b"[", b"]", b'"', b",", b":", b"null", b"[[", b"{}", b'{"$date":', b'{"$oid":', b'{"$binary":', b"1e999", b"-", b"\\u12", b"\x00", b"\xff"])
        elif op == 3:
            j = rng.randrange(len(b))
            i, j = min(i, j), max(i, j)
            del b[i:j]
        elif op == 4:
            b = b[:i]
        elif op == 5:
            j = min(len(b), i + rng.randrange(1, 40))
            b[i:i] = b[i:j]
        elif op == 6:
            # replace a JSON value token by another kind
            m = list(re.finditer(rb'"(?:[^"\\]|\\.)*"|-?\d+(?:\.\d+)?|true|false|null', bytes(b)))
            if m:
                mm = rng.choice(m)
                b[mm.start():mm.end()] = rng.choice([b"null", b"[]", b"{}", b"12", b'"x"', b"[[{}]]", b'{"$date":5}', b"true", b'{"a":[1,{"b":null}]}'])
        elif op == 7 and rng.random() < 0.5:
            # replace a whole document / array by another kind of value
            opens = [m.start() for m in re.finditer(rb'[\[{]', bytes(b))]
            if opens:
                st = rng.choice(opens)
                depth, j, instr = 0, st, False
                while j < len(b):
                    ch = b[j]
                    if instr:
                        if ch == 0x5c:
                            j += 1
                        elif ch == 0x22:
                            instr = False
                    elif ch == 0x22:
                        instr = True
                    elif ch in b"[{":
                        depth += 1
                    elif ch in b"]}":
                        depth -= 1
                        if depth == 0:
                            break
                    j += 1
                b[st:j + 1] = rng.choice([b'"str"', b"7", b"null", b"true", b'[1,"s"]', b'["s",[2,"t"],null]', b"[[1]]", b'{"k":"v"}', b"[]", b"{}"])
        elif op == 7:
            b = b.replace(b'"attr"', rng.choice([b'"attr_"', b'"ATTR"', b'"attr"']), 1)
            b = b.replace(b'"command"', rng.choice([b'"cmd"', b'"originatingCommand"', b'"command"']), 1)
        else:
            b = b.replace(rng.choice([b'"filter"', b'"pipeline"', b'"updates"', b'"documents"', b'"q"', b'"u"', b'"sort"']), rng.choice([b'"pipeline"', b'"updates"', b'"deletes"', b'"filter"', b'"documents"', b'"u"']), 1)
    s = bytes(b).replace(b"\n", b" ").replace(b"\r", b" ")
    return s


def mutation_driver(b, v, tier, seed):
    rng = random.Random(seed)
    pool = sl.Pool(seed)
    wd = tempfile.mkdtemp(prefix="c07mut-", dir=b.root)
    cfgs = [sl.SCfg("plain", [], {}), sl.SCfg("alln", ["-n", "-b", "-i", "-w"], {}), sl.SCfg("eager", ["-f", sl.NS], {}), sl.SCfg("sel", ["-z", "name|a"], {})]
    n_batches = 24 if tier == "quick" else 400
    per = 250
    good1 = pool.obj_line("cmd", 0, 900001)
    good2 = pool.obj_line("oth", 1, 900002)
    base = [pool.obj_line("cmd", c, 910000 + c) for c in range(len(pool.cmd) + len(pool.fix))]
    singles = sl.Singles(b, wd)
    for cfg in cfgs:
        singles.need(cfg, [good1, good2])
    total = 0

    def one(bi):
        r_ = random.Random(seed * 7919 + bi)
        cfg = cfgs[bi % len(cfgs)]
        muts = [mutate(r_, r_.choice(base)) for _ in range(per)]
        data = b"".join(good1.encode() + b"\n" + m + b"\n" for m in muts) + good2.encode() + b"\n"
        r = sl.cli_channel_run(b, data, cfg, ["file", "stdin", "gz"][bi % 3], "stdout", wd, "m%d" % bi, timeout=300)
        return bi, cfg, muts, r

    for bi, cfg, muts, r in common.parallel_map(one, range(n_batches)):
        total += len(muts)
        v.count(len(muts))
        g1, g2 = singles.get(cfg, good1)["out"], singles.get(cfg, good2)["out"]
        if r["rc"] == 0 and not crash_signature(r["rc"], r["stderr"]):
            whole, rest = sl.out_lines(r["out"] or b"")
            ok = rest == b"" and whole.count(g1) >= len(muts) and whole and whole[-1] == g2
            # between two good lines at most one line, and it must be a well-formed object
            cnt = 0
            for w in whole:
                if w == g1:
                    cnt = 0
                else:
                    cnt += 1
                    if cnt > 1 and w != g2:
                        ok = False
            if ok:
                continue
        # localise the offending mutant (each alone between the two good lines)
        culprit = None
        for m in muts:
            d2 = good1.encode() + b"\n" + m + b"\n" + good2.encode() + b"\n"
            r2 = sl.cli_channel_run(b, d2, cfg, "file", "stdout", wd, "m1", timeout=120)
            w2, rest2 = sl.out_lines(r2["out"] or b"")
            good = r2["rc"] == 0 and rest2 == b"" and w2[:1] == [g1] and w2[-1:] == [g2] and len(w2) in (2, 3) and \
                (len(w2) == 2 or sl.is_object_line(w2[1].decode("utf-8", "replace")))
            if len(m) > 65000 and r2["rc"] == 1 and not crash_signature(1, r2["stderr"]):
                good = True
            if not good:
                culprit = (m, r2)
                break
        if culprit:
            m, r2 = culprit
            v.violation("a mutated line %s flags=%s" % ("crashes the run" if crash_signature(r2["rc"], r2["stderr"]) else "disturbs the lines around it or yields a malformed line", " ".join(cfg.flags)),
                        {"flags": cfg.flags, "line": m.decode("utf-8", "replace")[:6000], "exit": r2["rc"], "stderr": r2["stderr"][-800:],
                         "output": (r2["out"] or b"").decode("utf-8", "replace")[:3000]})
    shutil.rmtree(wd, ignore_errors=True)
    return total


def hostile_names(b, v, tier):
    """Field names, index-key names in the plan summary, namespace names and replacement texts are log content too: names made of
    regular-expression metacharacters, printf verbs, quotes, control characters, very long names - under the flags that make the tool
    look at names (--redactFieldNames, --redactNamespaces, --redactFieldsRegexp)."""
    wd = tempfile.mkdtemp(prefix="c07names-", dir=b.root)
    names = ["c++", "amount (usd", "*x", "a[b", "x|y", "p\\q", "^start", "end$", "q?", "{n}", "a{2,1}", "(?i)", "\\", "%s%d", "100%", "tab\there",
             "new\nline", "quote\"d", "nul\u0000x", "uni\u2028sep", "é漢\U0001d4b3", "", " ", "a.b..c", "$", "$$", ".", "IXSCAN", "}", "{", ":", ",",
             "x" * 300, "a" * 1500, "-1", "0", "__proto__", "constructor"]
    lines = []
    for i, nm in enumerate(names):
        key = nm            # real characters (control characters, quotes, backslashes included); json.dumps escapes them in the line
        ns = "dbZn.collZn" if i % 3 else "dbZn.coll" + (key[:20] if key.strip(".$ ") else "x")
        plan_key = key.replace("}", "").replace("{", "")[:60]
        filt = {key: "v%d" % i, "$expr": {"$eq": ["$" + key, 1]}, "sub": {key: [{key: i}]}}
        for verb, cmd in (("find", {"find": "collZn", "filter": filt, "sort": {key: 1}, "$db": "dbZn"}),
                          ("aggregate", {"aggregate": "collZn", "pipeline": [{"$match": {key: {"$in": ["a", key]}}}, {"$group": {"_id": "$" + key, key: {"$sum": 1}}},
                                                                            {"$project": {key: 1}}, {"$sort": {key: -1}}, {"$lookup": {"from": key, "as": key, "localField": key, "foreignField": key}}],
                                         "$db": "dbZn"})):
            lines.append(json.dumps({"t": {"$date": "2025-01-01T00:00:00Z"}, "s": "I", "c": "COMMAND", "id": 500000 + len(lines), "ctx": "c", "msg": "Slow query",
                                     "attr": {"ns": ns, "command": cmd, "planSummary": "IXSCAN { %s: 1, other: -1 }, IXSCAN { %s: \"2d\" }" % (plan_key.replace("\n", " "), plan_key.replace("\n", " "))}},
                                    ensure_ascii=False, separators=(",", ":")))
    data = ("\n".join(lines) + "\n").encode("utf-8")
    inp = os.path.join(wd, "in.log")
    open(inp, "wb").write(data)
    flagsets = [[], ["-f", "dbZn.collZn"], ["-f", "dbZn"], ["-w"], ["-f", "dbZn.collZn", "-w", "-n", "-b"], ["-z", "c\\+\\+|\\(usd|^\\*"], ["-z", "."],
                ["-r", "%s%d$1\\1"], ["-r", "a(b", "-f", "dbZn.collZn", "-w"], ["-f", "(?i)db", "-f", "dbZn.collZn"], ["-f", "dbZn.coll[", "-w"]]
    n = 0
    for fl in flagsets:
        p = common.run_cli(b, ["redact", inp] + fl, cwd=wd)
        n += 1
        v.count(len(lines))
        se = p.stderr.decode("utf-8", "replace")
        rep = {"flags": fl, "exit": p.returncode, "stderr": se[-1500:]}
        ok = p.returncode == 0 and not crash_signature(p.returncode, se)
        whole, rest = sl.out_lines(p.stdout)
        # (C07 asks for *at most* one well-formed line per input line; that every object line yields exactly one is C06's business)
        if ok and (rest or len(whole) > len(lines) or any(not sl.is_object_line(w.decode("utf-8", "replace")) for w in whole)):
            ok = False
        if ok:
            continue
        # localise the line
        culprit = None
        for ln in lines:
            p2 = common.run_cli(b, ["redact"] + fl, stdin_data=(ln + "\n").encode("utf-8"), cwd=wd)
            w2, r2 = sl.out_lines(p2.stdout)
            if p2.returncode != 0 or r2 or len(w2) > 1 or (w2 and not sl.is_object_line(w2[0].decode("utf-8", "replace"))):
                culprit = (ln, p2)
                break
        if culprit:
            ln, p2 = culprit
            se2 = p2.stderr.decode("utf-8", "replace")
            v.violation("a line with an unusual field / index-key / namespace name %s flags=%s" % (
                "crashes the run" if crash_signature(p2.returncode, se2) else "stops the run or yields output that is not one well-formed line", " ".join(fl)),
                dict(rep, line=ln[:3000], exit_alone=p2.returncode, stderr_alone=se2[-800:], output_alone=p2.stdout.decode("utf-8", "replace")[:1500]))
        else:
            v.violation("a log with unusual names fails as a whole but every line passes alone flags=%s" % " ".join(fl), rep)
    shutil.rmtree(wd, ignore_errors=True)
    return n * len(lines)


def nesting_and_limit(b, v, tier):
    """Measures the reader's limit and probes extreme nesting on both sides of it."""
    wd = tempfile.mkdtemp(prefix="c07nest-", dir=b.root)
    pool = sl.Pool(1)
    good1 = pool.obj_line("cmd", 0, 900001)
    good2 = pool.obj_line("oth", 1, 900002)
    cfg = sl.SCfg("plain", [], {})
    g1 = sl.cli_channel_run(b, (good1 + "\n").encode(), cfg, "file", "stdout", wd, "g1")["out"]
    g2 = sl.cli_channel_run(b, (good2 + "\n").encode(), cfg, "file", "stdout", wd, "g2")["out"]
    # the limit: smallest size of a *valid* object line that stops the run
    sizes = [60000, 70000, 200000, 1 << 20, 5 << 20, 20 << 20, 40 << 20, 70 << 20]
    limit = None
    for sz in sizes:
        line = '{"t":1,"c":"NETWORK","pad":"' + "L" * sz + '"}'
        r = sl.cli_channel_run(b, (good1 + "\n" + line + "\n" + good2 + "\n").encode(), cfg, "file", "stdout", wd, "lim", timeout=600)
        v.count()
        if crash_signature(r["rc"], r["stderr"]):
            v.violation("a long line crashes the run", {"line_bytes": sz + 30, "exit": r["rc"], "stderr": r["stderr"][-600:]})
            break
        if r["rc"] != 0:
            limit = sz
            whole, _ = sl.out_lines(r["out"] or b"")
            if any(b"LLLLLLLLLLLLLLLLLLLL" in w for w in whole) or not r["stderr"].strip():
                v.violation("a line above the reader's limit is passed through / truncated or stops the run without a message",
                            {"line_bytes": sz + 30, "exit": r["rc"], "stderr": r["stderr"][-300:]})
            break
        whole, _ = sl.out_lines(r["out"] or b"")
        if whole[:1] != [g1] or whole[-1:] != [g2] or len(whole) != 3:
            v.violation("a long valid line disturbs the lines around it", {"line_bytes": sz + 30, "exit": r["rc"], "lines_out": len(whole)})
            break
    # nesting: depth up to the measured limit (open brackets only, balanced arrays, nested objects, inside a command zone)
    cap = (limit or (70 << 20))
    # the deepest probe: what fits into the limit, but no more than 8 million levels (a 1 GB stack is exhausted long before)
    top = min(cap - 200, 8000000)
    depths = sorted(set(d for d in [1000, 12000, 20000, 32000, 60000, top // 20, top // 4, top] if 0 < d <= top))
    probes = []
    for d in depths:
        probes.append((d, "open arrays x%d" % d, "[" * d))
        probes.append((d, "open objects x%d" % (d // 5), '{"a":' * (d // 5)))
        if 2 * d + 1 < cap:
            probes.append((d, "balanced arrays x%d" % d, "[" * d + "]" * d))
        k = d // 5
        if 6 * k + 10 < cap and k > 0:
            probes.append((d, "balanced objects x%d" % k, '{"a":' * k + "1" + "}" * k))
        k = max(1, (d - 200) // 8)
        if 8 * k + 300 < cap:
            probes.append((d, "nested filter x%d" % k, '{"t":{"$date":"2025-01-01T00:00:00Z"},"s":"I","c":"COMMAND","id":5,"ctx":"c","msg":"Slow query","attr":{"ns":"a.b","command":{"find":"b","filter":' +
                           '{"a":[' * k + '"x"' + "]}" * k + "}}}"))
    seen = set()
    found = False
    for d, what, line in probes:
        if what in seen:
            continue
        if found and d > 60000:
            break           # one crash on deep nesting is enough; deeper probes of a crashing binary only burn time
        seen.add(what)
        data = (good1 + "\n" + line + "\n" + good2 + "\n").encode()
        try:
            r = sl.cli_channel_run(b, data, cfg, "file", "stdout", wd, "nest", timeout=600)
        except common.Infra:
            if found:
                break
            raise
        v.count()
        rep = {"probe": what, "line_bytes": len(line), "exit": r["rc"], "stderr": r["stderr"][:300] + " ... " + r["stderr"][-300:], "measured_limit": limit}
        if crash_signature(r["rc"], r["stderr"]):
            found = True
            v.violation("extreme nesting crashes the run (%s)" % re.sub(r" x\d+", "", what), rep)
            continue
        whole, rest = sl.out_lines(r["out"] or b"")
        if r["rc"] == 0:
            if whole[:1] != [g1] or whole[-1:] != [g2] or len(whole) > 3 or rest:
                v.violation("a deeply nested line disturbs the lines around it (%s)" % re.sub(r" x\d+", "", what), rep)
        elif limit is None or len(line) < min(limit, 65536):
            v.violation("a deeply nested line within the reader's limit stops the run (%s)" % re.sub(r" x\d+", "", what), rep)
    shutil.rmtree(wd, ignore_errors=True)
    return limit, len(seen)


def accumulation(b, v, tier):
    """Bad lines in bulk, then ordinary ones: whatever a malformed line costs, it costs that line only - not the 2000th line after it.
    (History inside one run: parser state that an error path forgets to restore, counters, pools, buffers.)"""
    wd = tempfile.mkdtemp(prefix="c07acc-", dir=b.root)
    pool = sl.Pool(v.seed)
    goods = [pool.obj_line("cmd", j, 5100000 + j) for j in range(4)]
    cfgs = [sl.SCfg("plain", [], {}), sl.SCfg("all", ["-n", "-b", "-i", "-w", "-f", sl.NS], {})]
    singles = sl.Singles(b, wd)
    reps = 2500 if tier == "quick" else 12000
    base = pool.obj_line("cmd", 1, 5200000)
    families = {
        "lines cut off inside several open containers": lambda i: base[: max(40, len(base) - 20 - (i % 37))].replace("5200000", str(5200000 + i)),
        "unterminated runs of '['": lambda i: '{"id":%d,"x":' % (5300000 + i) + "[" * (3400 + i % 5),
        "unterminated runs of '{\"a\":'": lambda i: '{"id":%d,"x":' % (5400000 + i) + '{"a":' * (1500 + i % 5),
        "unbalanced closers": lambda i: '{"id":%d,"x":[1,2]]}}' % (5500000 + i),
        "bad tokens inside nested containers": lambda i: '{"id":%d,"a":{"b":[{"c":[nope%d]}]}}' % (5600000 + i, i),
        "unterminated strings inside containers": lambda i: '{"id":%d,"a":[{"b":"no end %d' % (5700000 + i, i),
        "top-level arrays and scalars": lambda i: ["[[[[%d]]]]" % i, '"s%d"' % i, "%d" % i, "null"][i % 4],
    }
    n = 0
    for cfg in cfgs:
        singles.need(cfg, goods)
        exp = b"".join(singles.get(cfg, g)["out"] for g in goods)
        for what, gen in families.items():
            count = reps if "runs of" not in what else max(8, reps // 300)
            # (every other family: the malformed lines come first - the log does not start with an entry)
            lead = 1 if len(what) % 2 == 0 else 0
            lines = goods[:lead] + [gen(i) for i in range(count)] + goods[lead:]
            data = ("\n".join(lines) + "\n").encode("utf-8")
            for ic in ("file", "stdin"):
                r = sl.cli_channel_run(b, data, cfg, ic, "stdout", wd, "acc", timeout=600)
                n += 1
                v.count()
                v.nontrivial(("accumulation", what, cfg.name, ic))
                got = r["out"] or b""
                rep = {"family": what, "malformed_lines": count, "flags": cfg.flags, "input_channel": ic, "exit": r["rc"], "stderr": r["stderr"][:300],
                       "ordinary_lines_expected": len(goods), "output_lines": got.count(b"\n"), "example_malformed_line": lines[lead][:200], "malformed_lines_come_first": not lead}
                if crash_signature(r["rc"], r["stderr"]):
                    v.violation("many malformed lines in one run crash it (%s)" % what, rep)
                elif r["rc"] != 0:
                    v.violation("many malformed lines in one run stop it with an error (%s)" % what, rep)
                else:
                    whole, rest = sl.out_lines(got)
                    mine = [w.rstrip(b"\n") + b"\n" for w in whole if any(str(5100000 + j).encode() in w for j in range(4))]
                    if b"".join(mine) != exp:
                        v.violation("ordinary lines that follow many malformed lines are lost or altered (%s)" % what, rep)
                    elif len(whole) > len(goods) + count:
                        v.violation("malformed lines yield more than one output line each (%s)" % what, rep)
    shutil.rmtree(wd, ignore_errors=True)
    return n


def magic_first_lines(b, v, tier):
    """Raw bytes in front: a first line that starts with the signature of a compressed / binary format (but is just a damaged line of a
    plain-text log) must cost that line only - on every input channel that is not declared compressed by its name."""
    wd = tempfile.mkdtemp(prefix="c07magic-", dir=b.root)
    pool = sl.Pool(v.seed)
    goods = [pool.obj_line("cmd", j, 5800000 + j) for j in range(3)]
    cfg = sl.SCfg("plain", [], {})
    singles = sl.Singles(b, wd)
    singles.need(cfg, goods)
    exp = b"".join(singles.get(cfg, g)["out"] for g in goods)
    magics = {"gzip": b"\x1f\x8b\x08\x00", "gzip (2 bytes)": b"\x1f\x8b", "zstd": b"\x28\xb5\x2f\xfd", "bzip2": b"BZh91AY&SY", "xz": b"\xfd7zXZ\x00", "zip": b"PK\x03\x04",
              "lz4": b"\x04\x22\x4d\x18", "UTF-16 BOM": b"\xff\xfe{\x00", "NUL bytes": b"\x00\x00\x00", "snappy": b"\xff\x06\x00\x00sNaPpY"}
    n = 0
    body = ("\n".join(goods) + "\n").encode("utf-8")
    for name, mg in magics.items():
        for where in ("first", "second"):
            junk = mg + b" \x01\x02 damaged entry\n"
            data = junk + body if where == "first" else body[:body.index(b"\n") + 1] + junk + body[body.index(b"\n") + 1:]
            for ic in ("file", "stdin"):
                r = sl.cli_channel_run(b, data, cfg, ic, "stdout", wd, "mg", timeout=120)
                n += 1
                v.count()
                v.nontrivial(("magic", name, where, ic))
                got = r["out"] or b""
                rep = {"first_bytes": mg.hex(), "format_signature": name, "position": where + " line", "input_channel": ic, "exit": r["rc"], "stderr": r["stderr"][:300],
                       "output_lines": got.count(b"\n"), "expected_lines": len(goods)}
                if crash_signature(r["rc"], r["stderr"]):
                    v.violation("a line that starts with the signature of a binary format crashes the run (%s)" % name, rep)
                elif r["rc"] != 0:
                    v.violation("a line that starts with the signature of a binary format stops the run (%s, %s line, input from %s)" % (name, where, ic), rep)
                else:
                    mine = b"".join(w.rstrip(b"\n") + b"\n" for w in sl.out_lines(got)[0] if any(str(5800000 + j).encode() in w for j in range(3)))
                    if mine != exp:
                        v.violation("ordinary lines around a line that starts with the signature of a binary format are lost or altered (%s)" % name, rep)
    shutil.rmtree(wd, ignore_errors=True)
    return n


def run(tier):
    v = common.Verdict(PID, tier, "model_checking")
    b = common.build()
    # (1) stream level
    maxlen = 3
    t = sl.run_stream_mc(KINDS, maxlen, bars=(True, False))
    recs = [r for r in t.records if any(k not in sl.OBJ_KINDS for k in r["input"])]
    if tier == "quick":
        rng = random.Random(v.seed)
        keep = [r for r in recs if len(r["input"]) <= 2]
        rest = [r for r in recs if len(r["input"]) > 2]
        rng.shuffle(rest)
        recs = keep + rest[:1500]
    recs = list(enumerate(recs))
    scfgs = sl.stream_cfgs("full") + [sl.SCfg("enc", ["--encrypt", "-q", "k.key"], {})]
    _G.update(b=b, pool=sl.Pool(v.seed), cfgs=scfgs, seed=v.seed)
    chunks = [(i, c) for i, c in enumerate(common.chunks(recs, 60))]
    results = common.pool_map(work, chunks)
    traces, owners = [], []
    for r in results:
        v.count(r["evals"])
        for k in r["nontrivial"]:
            v.nontrivial(tuple(map(str, k)))
        for sig, rep in r["viol"]:
            v.violation(sig, rep)
        for ev, how in r["traces"]:
            traces.append(ev)
            owners.append(how)
    acc, rej, tstates = sl.validate_traces(traces, timeout=1500)
    for ti, ei, ev, why in rej:
        v.spec_drift({"trace": owners[ti], "rejected_at_event": ei, "event": ev, "init": traces[ti][0]})
    # (2) walker level
    cs = l3_cfgs(tier)
    rp = l3.Replay(b, v, cs, "checks.c07:judge_l3", variants=1 if tier == "quick" else 2, drift=False)
    shapes = '{"s","sa","os","aos","aas","aaos","oas","eo","ea","xdateS","xoidS","xbinB","xdateA","xdateO","xoidA","xoidO","xbinA","xbinO","xbinS","xbinSA","xdateNL"}'
    if tier == "quick":
        shapes = '{"s","sa","as","aos","aas","ea","xdateS","xoidS","xbinB","xdateA","xdateO","xoidA","xoidO","xbinA","xbinO","xbinS","xbinSA","xdateNL"}'
    t2 = l3.generate("RedactorTW", "RedactorTW.cfg", cs, {"TWShapeKinds": shapes}, rp.sink, timeout=3000)
    t3 = l3.generate("RedactorEW", "RedactorEW.cfg", cs, {"EWDamaged": "TRUE"}, rp.sink, timeout=1500)
    for tt in (t2, t3):
        if not tt.ok:
            raise common.Infra("TLC failed: %s\n%s" % (tt.violation, tt.out[-800:]))
    rp.finish()
    for s in rp.stray_samples[:3]:
        v.violation("a line yields output that is not one well-formed JSON object line: %s" % s["why"], s)
    # (3) mutation + nesting
    nmut = mutation_driver(b, v, tier, v.seed)
    nhostile = hostile_names(b, v, tier)
    limit, nprobes = nesting_and_limit(b, v, tier)
    nacc = accumulation(b, v, tier)
    nmagic = magic_first_lines(b, v, tier)
    v.cov.update({"states": t.distinct + t2.distinct + t3.distinct + tstates, "transitions": t.generated + t2.generated + t3.generated,
                  "traces_validated_against_impl": acc, "traces_rejected": len(rej), "exhaustive": tier == "thorough",
                  "stream_terminal_states_replayed": len(recs), "walker_cases": rp.records, "walker_flag_sets": [c.desc() for c in cs],
                  "walker_crashed_lines": rp.crashes, "mutated_lines": nmut, "hostile_name_lines": nhostile, "measured_reader_limit_bytes": limit, "nesting_probes": nprobes, "accumulation_runs": nacc, "binary_signature_runs": nmagic,
                  "line_kinds": list(KINDS),
                  "rule": "(1) every sequence of <= 3 line kinds incl. over-long lines (quick: all of length <= 2 and 1500 of length 3) through the real CLI, "
                          "judged: no crash signature, exit 0 unless a line exceeds the limit (then exit != 0 with a message and the line neither passed through "
                          "nor truncated), ordinary lines give their usual bytes, a bad line at most one well-formed line; (2) every operator-table entry x value "
                          "shape incl. wrappers over wrong kinds, batched, crash => bisected to the line; (3) mutated lines between two ordinary lines; nesting "
                          "probes up to the measured limit",
                  "trusted_base": ["TLC", "lib/streamlib.py", "lib/l3.py", "lib/jsonx.py"]})
    return v.finish()


def replay(path):
    print(open(path).read()[:8000])
    return 0
