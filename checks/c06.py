"""C06 - a log is processed as an order-preserving, line-local map.
Decided by: spec/Stream.tla (one action per branch of the scan loop) model-checked by TLC over every line-kind sequence up to a
bound x final newline x progress bar (invariants OutputIsMap, NoRawCopy, OkIsComplete, AppendOnly, Terminates); every terminal state
is replayed on the real code - the real CLI over 3 input channels x 2 output channels x LF/CRLF, and the in-process stream entry
points with several read-chunk sizes - and the bytes are compared with the concatenation of what each line yields when run alone;
the recorded executions (one event per Write call / output line) are validated as behaviours of Stream by TLC (StreamTrace)."""
import json, multiprocessing, os, random, shutil, tempfile
import common, jsonx, streamlib as sl

PID = "C06"
KINDS_Q = ("cmd", "oth", "padded", "blank", "ws", "txt", "arr", "trunc")
KINDS_T = ("cmd", "oth", "padded", "blank", "ws", "txt", "arr", "scalar", "trunc", "trail", "legacy")

_G = {}


def channels_for(bar):
    """The model's barOn is a consequence of the channel choice in main.go: file input and --outputFile."""
    if bar:
        return [("file", "file"), ("gz", "file"), ("gzmulti", "file")]
    return [("file", "stdout"), ("gz", "stdout"), ("stdin", "stdout"), ("stdin", "file"), ("gzmulti", "stdout")]


def work(args):
    chunk_no, recs = args
    G = _G
    b, pool, cfgs, tier, seed = G["b"], G["pool"], G["cfgs"], G["tier"], G["seed"]
    wd = tempfile.mkdtemp(prefix="c06-%d-" % chunk_no, dir=b.root)
    res = {"evals": 0, "viol": [], "drift": [], "traces": [], "nontrivial": set(), "texts": 0, "sample": None}
    try:
        cases = []
        for ri, (seq_no, rec) in enumerate(recs):
            for variant in range(G["variants"]):
                lines = sl.concretise(pool, rec["input"], variant + (seed - 1) * 7, seq_no)
                cases.append((seq_no, rec, variant, lines))
        singles = sl.Singles(b, wd)
        for cfg in cfgs:
            singles.need(cfg, [t for _, _, _, lines in cases for (k, t, _) in lines])
        # --- judge the single-line runs themselves
        bad_single = {}
        for (cname, text), r in singles.cache.items():
            res["evals"] += 1
            isobj = sl.is_object_line(text)
            whole, rest = sl.out_lines(r["out"] or b"")
            ok = r["rc"] == 0 and rest == b"" and ((len(whole) == 1 and sl.is_object_line(whole[0].decode("utf-8", "replace"))) if isobj else len(whole) == 0)
            if not ok:
                what = ("a JSON-object line run alone does not yield exactly one newline-terminated JSON-object line" if isobj
                        else "a line that is not a JSON object contributes output (raw text copied / repaired)")
                bad_single[(cname, text)] = what
                res["viol"].append(("%s cfg=%s" % (what, cname), {"flags": [c.flags for c in cfgs if c.name == cname][0], "line": text[:3000],
                                                                "exit": r["rc"], "output": (r["out"] or b"")[:3000].decode("utf-8", "replace"), "stderr": r["stderr"][:500]}))
        # --- the runs
        inproc_reqs, inproc_meta = [], []
        for ci, (seq_no, rec, variant, lines) in enumerate(cases):
            ids = [i for _, _, i in lines]
            for cfg in cfgs:
                if cfg.name != "plain" and variant != 0:
                    continue
                if any((cfg.name, t) in bad_single for _, t, _ in lines):
                    continue
                exp = b"".join(singles.get(cfg, t)["out"] for k, t, _ in lines if k in sl.OBJ_KINDS)
                combos = channels_for(rec["bar"])
                les = (False, True)
                if cfg.name != "plain":
                    combos, les = combos[:2] + combos[-1:], (False,)
                for crlf in les:
                    data = sl.file_bytes(lines, rec["finalNL"], crlf)
                    for (ic, oc) in combos:
                        reps = 2 if (ci % 7 == 0 and ic == "file") else 1
                        for rep in range(reps):
                            pre = (b"STALE OUTPUT OF AN EARLIER RUN " * 40 + b"\n") * 60 if (oc == "file" and (ci + rep) % 2 == 0) else None
                            r = sl.cli_channel_run(b, data, cfg, ic, oc, wd, "c%d" % ci, prefill=pre)
                            res["evals"] += 1
                            status = "ok" if r["rc"] == 0 else "failed"
                            if r["out"] != exp or r["rc"] != 0:
                                res["viol"].append(("output differs from the concatenation of the single-line results (in=%s out=%s %s finalNL=%s kinds=%s) cfg=%s" % (
                                    ic, oc, "CRLF" if crlf else "LF", rec["finalNL"], ",".join(rec["input"]), cfg.name),
                                    {"flags": cfg.flags, "in_channel": ic, "out_channel": oc, "crlf": crlf, "final_newline": rec["finalNL"],
                                     "kinds": rec["input"], "input": data.decode("utf-8", "replace")[:6000], "exit": r["rc"],
                                     "expected": exp.decode("utf-8", "replace")[:6000], "actual": (r["out"] or b"").decode("utf-8", "replace")[:6000],
                                     "stderr": r["stderr"][:400], "repetition": rep}))
                            if cfg.name == "plain" and not crlf and rep == 0:
                                res["traces"].append((sl.events_from_output(sl.env_of(rec), r["out"], ids, status), "cli %s->%s" % (ic, oc), ci))
                            got = [sl.line_index_of(w, ids) for w in sl.out_lines(r["out"] or b"")[0]]
                            if got != rec["out"] and r["out"] == exp:
                                res["drift"].append({"kinds": rec["input"], "predicted_out": rec["out"], "actual_out": got})
                # in-process: same bytes through ProcessMongoLogFileFromReader / ProcessMongoLogFile(.gz), several read-chunk sizes
                if cfg.name == "plain" or variant == 0:
                    for chunk in (0, 1, 7):
                        crlf = (chunk == 7)
                        data = sl.file_bytes(lines, rec["finalNL"], crlf)
                        gz = (chunk == 1 and ci % 2 == 0)
                        payload = sl.gzip.compress(data, mtime=0) if gz else data
                        inproc_reqs.append({"opts": cfg.opts, "input_b64": common.b64(payload), "gz": gz, "chunk": chunk, "bar": rec["bar"],
                                            "bar_max": data.count(b"\n"), "rfail_after": -1})
                        inproc_meta.append((ci, cfg, exp, crlf, gz, chunk))
            if lines and any(k in sl.OBJ_KINDS for k, _, _ in lines) and any(k not in sl.OBJ_KINDS for k, _, _ in lines):
                res["nontrivial"].add((tuple(rec["input"]), rec["finalNL"], rec["bar"]))
        if inproc_reqs and b.inproc:
            ans = sl.inproc_stream(b, inproc_reqs)
            for a, (ci, cfg, exp, crlf, gz, chunk) in zip(ans, inproc_meta):
                seq_no, rec, variant, lines = cases[ci]
                ids = [i for _, _, i in lines]
                res["evals"] += 1
                if a.get("panic") is not None:
                    continue        # judged by C07
                out = common.unb64(a["out_b64"])
                if out != exp or a["failed"]:
                    res["viol"].append(("in-process stream output differs from the concatenation of the single-line results (chunk=%d gz=%s bar=%s kinds=%s) cfg=%s" % (
                        chunk, gz, rec["bar"], ",".join(rec["input"]), cfg.name),
                        {"opts": cfg.opts, "chunk": chunk, "gz": gz, "bar": rec["bar"], "kinds": rec["input"], "final_newline": rec["finalNL"], "crlf": crlf,
                         "input": sl.file_bytes(lines, rec["finalNL"], crlf).decode("utf-8", "replace")[:6000],
                         "expected": exp.decode("utf-8", "replace")[:6000], "actual": out.decode("utf-8", "replace")[:6000], "error": a.get("err")}))
                if cfg.name == "plain":
                    chunks = sl.split_writes(out, a.get("writes") or [])
                    res["traces"].append((sl.trace_events(sl.env_of(rec), chunks, ids, "failed" if a["failed"] else "ok"), "inproc chunk=%d gz=%s" % (chunk, gz), ci))
        res["texts"] = len(singles.cache)
        if cases and chunk_no == 0:
            seq_no, rec, variant, lines = cases[min(len(cases) - 1, 40)]
            res["sample"] = {"kinds": rec["input"], "finalNL": rec["finalNL"], "bar": rec["bar"], "input": sl.file_bytes(lines, rec["finalNL"], False).decode("utf-8", "replace")[:1500]}
        res["cases"] = [(c[0], c[1]["input"]) for c in cases]
    finally:
        shutil.rmtree(wd, ignore_errors=True)
    res["nontrivial"] = list(res["nontrivial"])
    return res


def volume(b, v, tier):
    """Long logs (thousands of lines, a few hundred distinct texts, lines just below the scanner limit, many blank / junk lines in a
    row) over the channel combinations: buffering, flushing and progress accounting at scale."""
    wd = tempfile.mkdtemp(prefix="c06vol-", dir=b.root)
    pool = sl.Pool(v.seed)
    rng = random.Random(v.seed * 31 + 7)
    kinds = ["cmd"] * 6 + ["oth"] * 3 + ["padded", "blank", "blank", "ws", "txt", "legacy", "arr", "scalar", "trunc", "trail"]
    distinct = []
    for i in range(260):
        k = rng.choice(kinds)
        distinct.append((k, pool.line(k, rng.randrange(64), 3000000 + i), 3000000 + i))
    # object lines just below the 64 KiB scanner limit
    # ... and lines whose length is an exact multiple of the usual buffer sizes (4096, 8192, 65536/2 ...), one byte less (CRLF) and one more
    for j, pad in enumerate((60000, 65000, 65300, 4095, 4096, 4097, 8191, 8192, 12288, 16384, 32768, 61440)):
        base = pool.obj_line("cmd", j, 3100000 + j)
        room = pad - len(base.encode("utf-8")) - 9          # the finished line is exactly `pad` bytes long
        distinct.append(("cmd", base[:-1] + ',"pad":"' + "p" * max(1, room) + '"}', 3100000 + j))
    # plan summaries of every stage kind whose index keys are field names that OTHER lines of the log use (a line's result must not
    # depend on what earlier lines taught a side table), in a namespace --redactFieldNames selects
    plans = ["IXSCAN { name: 1 }", "DISTINCT_SCAN { name: 1 }", "COUNT_SCAN { name: 1, age: -1 }", "IXSCAN { email: 1 }, IXSCAN { age: 1 }",
             "SORT_MERGE { email: 1 }", "COLLSCAN", "IDHACK", "EOF", "TEXT_MATCH { _fts: \"text\", _ftsx: 1 }", "GEO_NEAR_2DSPHERE { k: \"2dsphere\" }",
             "DISTINCT_SCAN { k: 1, cnt: 1 }", "EXPRESS_IXSCAN { _id: 1 }"]
    for j, ps in enumerate(plans):
        idn = 3200000 + j
        d = sl._cmd(idn, "COMMAND", "Slow query", {"type": "command", "ns": sl.NS, "command": {"distinct": "collZn", "key": "region", "query": {"zone%d" % j: "v%d" % j}, "$db": "dbZn"},
                                                   "planSummary": ps, "durationMillis": 7 + j})
        distinct.append(("cmd", sl._dumps(d), idn))
    # JSON-object lines nested very deep (outside every zone) but well inside the line limit: one output line each
    deep_texts = []
    for j, depth in enumerate((200, 1000, 5000, 9999, 10000, 10001, 10500, 20000, 30000)):
        idn = 3300000 + j
        base = pool.obj_line("oth" if j % 2 else "cmd", j, idn)
        text = base[:-1] + ',"deep":' + "[" * depth + "]" * depth + "}"
        distinct.append(("cmd", text, idn))
        deep_texts.append((depth, text))
    cfgs = sl.stream_cfgs("full")
    singles = sl.Singles(b, wd)
    n = 0
    # a log in which raw and already pseudonymised entries are mixed: lines whose database / collection / field names ARE the pseudonyms
    # this very flag set gives to the names of other lines (what a line yields must not depend on whether those other lines came first)
    import re as _re
    base_line = pool.obj_line("cmd", 0, 3400000)
    for cfg in cfgs:
        if "-w" not in cfg.flags and "-f" not in cfg.flags:
            continue
        singles.need(cfg, [base_line])
        o1 = (singles.get(cfg, base_line)["out"] or b"").decode("utf-8", "replace")
        m = _re.search(r'"ns":"([^".]+)\.([^"]+)"', o1)
        if m and m.group(1) != "dbZn":
            twin = base_line.replace("dbZn", m.group(1)).replace("collZn", m.group(2)).replace("3400000", str(3400001 + len(distinct)))
            distinct.append(("cmd", twin, 3400001 + len(distinct)))
        keys = _re.findall(r'"((?:REDACTED|Rr)_[0-9a-f]{16})":', o1)
        if keys:
            twin2 = base_line.replace('"name"', '"%s"' % keys[0]).replace("3400000", str(3400001 + len(distinct)))
            distinct.append(("cmd", twin2, 3400001 + len(distinct)))
    nlines = 3000 if tier == "quick" else 40000
    seq = [rng.choice(distinct) for _ in range(nlines)] + [("blank", "", 0)] * 50 + [rng.choice(distinct) for _ in range(200)]
    # the log does not start with an entry: a banner of 150 lines that are no JSON objects (a wrapper's output, a legacy-format head) comes first
    junk = [d for d in distinct if d[0] not in sl.OBJ_KINDS and d[0] != "blank" and d[1].strip()]
    if junk:
        seq = [junk[j % len(junk)] for j in range(150)] + seq
    for cfg in cfgs:
        singles.need(cfg, [t for k, t, _ in distinct if k in sl.OBJ_KINDS])
        exp = b"".join(singles.get(cfg, t)["out"] for k, t, _ in seq if k in sl.OBJ_KINDS)
        for depth, text in deep_texts:
            r1 = singles.get(cfg, text)
            o1 = r1["out"] or b""
            v.count()
            if r1["rc"] != 0 or o1.count(b"\n") != 1 or not o1.startswith(b"{") or not o1.endswith(b"}\n"):
                v.violation("a JSON-object line nested %s levels deep run alone does not yield exactly one JSON-object line cfg=%s" % (
                    "more than 10000" if depth > 10000 else "up to 10000", cfg.name),
                    {"flags": cfg.flags, "nesting_depth": depth, "line_bytes": len(text), "exit": r1["rc"], "output_bytes": len(o1), "stderr": r1["stderr"][:300]})
        for crlf, final_nl in ((False, True), (True, False)):
            data = sl.file_bytes(seq, final_nl, crlf)
            for ic, oc in (("file", "stdout"), ("gz", "file"), ("stdin", "stdout"), ("file", "file"), ("stdin", "file"), ("gzmulti", "stdout")):
                r = sl.cli_channel_run(b, data, cfg, ic, oc, wd, "vol", timeout=600, prefill=b"x" * (len(exp) + 5000) if oc == "file" else None)
                n += 1
                v.count()
                if r["rc"] != 0 or r["out"] != exp:
                    got = r["out"] or b""
                    k = next((i for i in range(min(len(got), len(exp))) if got[i] != exp[i]), min(len(got), len(exp)))
                    v.violation("a long log is not processed as the line-by-line map (in=%s out=%s %s, %d lines) cfg=%s" % (ic, oc, "CRLF" if crlf else "LF", len(seq), cfg.name),
                                {"flags": cfg.flags, "exit": r["rc"], "expected_bytes": len(exp), "actual_bytes": len(got), "first_difference_at_byte": k,
                                 "expected_there": exp[max(0, k - 80):k + 120].decode("utf-8", "replace"), "actual_there": got[max(0, k - 80):k + 120].decode("utf-8", "replace"),
                                 "stderr": r["stderr"][:300]})
    shutil.rmtree(wd, ignore_errors=True)
    return n


def run(tier):
    v = common.Verdict(PID, tier, "model_checking")
    b = common.build()
    kinds, maxlen = (KINDS_Q, 3) if tier == "quick" else (KINDS_T, 3)
    t = sl.run_stream_mc(kinds, maxlen, coverage=False)
    recs = [r for r in t.records if r["status"] == "ok"]
    if len(recs) != len(t.records):
        raise common.Infra("fault-free Stream model produced a failed run")
    states, trans = t.distinct, t.generated
    extra = []
    if tier == "thorough":
        # longer sequences by simulation of the same module (every behaviour ends in a terminal state that is printed)
        t2 = sl.run_stream_mc(KINDS_T, 6, simulate=4000, depth=40, seed=v.seed)
        seen = set()
        for r in t2.records:
            key = (tuple(r["input"]), r["finalNL"], r["bar"])
            if r["status"] == "ok" and len(r["input"]) > 3 and key not in seen:
                seen.add(key)
                extra.append(r)
        states += t2.distinct
        trans += t2.generated
    # coverage of the model itself (vacuity guard): every action of the fault-free loop is taken
    tc = sl.run_stream_mc(("cmd", "blank", "txt"), 2, coverage=True)
    import re
    zero = [a for a in re.findall(r"^<(\w+) line \d+, col \d+ to line \d+, col \d+ of module Stream>: (\d+):", tc.out, flags=re.M)
            if a[1] == "0" and a[0] in ("ScanLine", "SkipBlankAtMax", "ParseFail", "Emit", "Eof")]
    if zero:
        raise common.Infra("vacuous model: actions never taken: %s" % zero)
    allrecs = list(enumerate(recs + extra))
    rng = random.Random(v.seed)
    _G.update(b=b, pool=sl.Pool(v.seed), cfgs=sl.stream_cfgs("basic" if tier == "quick" else "full"), tier=tier, seed=v.seed,
              variants=2 if tier == "quick" else 3)
    chunks = [(i, c) for i, c in enumerate(common.chunks(allrecs, 40))]
    results = common.pool_map(work, chunks)
    traces, owners = [], []
    ntexts = 0
    for r in results:
        v.count(r["evals"])
        ntexts += r["texts"]
        for k in r["nontrivial"]:
            v.nontrivial(tuple(map(str, k)))
        for sig, rep in r["viol"]:
            v.violation(sig, rep)
        for d in r["drift"]:
            v.spec_drift(d)
        if r["sample"]:
            v.sample(r["sample"])
        for ev, how, ci in r["traces"]:
            traces.append(ev)
            owners.append(how)
    nvol = volume(b, v, tier)
    # trace validation: real executions must be behaviours of Stream
    acc, rej, tstates = sl.validate_traces(traces)
    for ti, ei, ev, why in rej:
        # a rejected trace without a failed byte comparison is drift between model and code, not a violation (DESIGN 2.3)
        v.spec_drift({"trace": owners[ti], "rejected_at_event": ei, "event": ev, "init": traces[ti][0]})
    v.cov.update({"states": states + tstates, "transitions": trans, "traces_validated_against_impl": acc, "traces_rejected": len(rej),
                  "exhaustive": True, "model_terminal_states_replayed": len(allrecs), "line_kinds": list(kinds), "max_len_exhaustive": maxlen,
                  "simulated_longer_sequences": len(extra), "volume_runs": nvol, "distinct_concrete_lines_run_alone": ntexts,
                  "flag_sets": [c.flags for c in _G["cfgs"]],
                  "rule": "TLC: all sequences over the line kinds up to the bound x final newline x bar; replay: each through the real CLI (file/gz/stdin x stdout/-o x "
                          "LF/CRLF; a 7th of the runs repeated) and in-process (read chunks of 1 byte, 7 bytes, unlimited; plain and gzip); expected bytes = "
                          "concatenation of the outputs of single-line CLI runs; non-trivial = sequences mixing object and non-object lines",
                  "trusted_base": ["TLC", "lib/jsonx.py (what is a JSON object line)", "lib/streamlib.py", "harness/inproc stream driver"]})
    v.assumptions.append("input lines are valid UTF-8 without duplicate keys; no line exceeds the scanner limit (that case is C07)")
    return v.finish()


def replay(path):
    d = json.load(open(path))
    c = d["case"]
    b = common.build(need_inproc=False)
    wd = tempfile.mkdtemp(dir=b.root)
    if "in_channel" in c:
        cfg = sl.SCfg("r", c["flags"], {})
        r = sl.cli_channel_run(b, c["input"].encode("utf-8"), cfg, c["in_channel"], c["out_channel"], wd, "r")
        print("exit", r["rc"])
        print("expected:\n" + c["expected"])
        print("actual:\n" + (r["out"] or b"").decode("utf-8", "replace"))
        return 1 if (r["out"] or b"").decode("utf-8", "replace") != c["expected"] else 0
    print(json.dumps(d, indent=1)[:6000])
    return 0
