"""C11 - key-file lifecycle: create once, never overwrite, refuse unusable keys.
Decided by: spec/KeyFile.tla (one action per step of the key stage and of the run, environment changes between runs, a run that
fails part-way) model-checked by TLC for every initial state of the key path x every sequence of runs (NeverOverwrite, CreateOnce,
KeyBeforeCiphertext, UnusableRefused, ReadBack, SuccessHasKey); every behaviour is replayed with real files through the real CLI
(as an unprivileged user, so that an unreadable key file is really unreadable) and judged from file bytes, modes, exit status and
output after every run; strace'd runs are validated as behaviours of KeyFile (KeyFileTrace), which observes - not infers - that
the key reaches the disk before the first ciphertext."""
import base64, json, os, random, re, shutil, stat, subprocess, tempfile
import common, streamlib as sl

PID = "C11"
NOBODY = 65534


def demote():
    os.setgroups([])
    os.setgid(NOBODY)
    os.setuid(NOBODY)


def can_demote():
    if os.geteuid() != 0:
        return False
    try:
        p = subprocess.run(["true"], preexec_fn=demote)
        return p.returncode == 0
    except Exception:
        return False


class World:
    def __init__(self, b, root, idx, pool, unpriv):
        self.b, self.unpriv, self.idx = b, unpriv, idx
        self.d = tempfile.mkdtemp(prefix="c11-%d-" % idx, dir=root)
        os.chmod(self.d, 0o777)
        self.kdir = os.path.join(self.d, "keys")
        self.kpath = os.path.join(self.kdir, "my.key")
        self.keys = {}
        # the first line holds nothing to encrypt (a key decision taken lazily would let it through)
        lines = sl.concretise(pool, ["oth", "cmd", "cmd"], 1, idx)
        self.good = sl.file_bytes(lines, True, False)
        longl = pool.junk_line("long", 0, 77)
        self.abort = sl.file_bytes([lines[0], lines[1], ("long", longl, 0), lines[2]], True, False)
        self.benign = sl.file_bytes(sl.concretise(pool, ["oth", "oth"], 2, idx), True, False)
        self.secrets = None

    def key_for(self, kid):
        if kid not in self.keys:
            self.keys[kid] = os.urandom(64)
        return self.keys[kid]

    def put(self, kind, kid):
        """Puts `kind` at the key path (removing whatever is there)."""
        if os.path.isdir(self.kdir):
            for n in os.listdir(self.kdir):
                p = os.path.join(self.kdir, n)
                if os.path.isdir(p) and not os.path.islink(p):
                    shutil.rmtree(p)
                else:
                    os.chmod(p, 0o644) if not os.path.islink(p) else None
                    os.remove(p)
        real = os.path.join(self.d, "real-key-behind-the-link")
        if os.path.exists(real):
            os.remove(real)
        if kind == "noparent":
            if os.path.isdir(self.kdir):
                os.rmdir(self.kdir)
            return
        os.makedirs(self.kdir, exist_ok=True)
        os.chmod(self.kdir, 0o777)
        if self.unpriv:
            os.chown(self.kdir, NOBODY, NOBODY)
        if kind == "absent":
            return
        if kind == "dir":
            os.mkdir(self.kpath)
            os.chmod(self.kpath, 0o777)
            if self.unpriv:
                os.chown(self.kpath, NOBODY, NOBODY)
            return
        if kind == "validLink":
            with open(real, "wb") as f:
                f.write(base64.b64encode(self.key_for(kid)))
            os.chmod(real, 0o644)
            if self.unpriv:
                os.chown(real, NOBODY, NOBODY)
            os.symlink(real, self.kpath)
            return
        content = {"valid": lambda: base64.b64encode(self.key_for(kid)), "validNL": lambda: base64.b64encode(self.key_for(kid)) + b"\n",
                   "empty": lambda: b"", "short": lambda: base64.b64encode(os.urandom(32)), "long": lambda: base64.b64encode(os.urandom(65)),
                   "nonb64": lambda: b"this is *not* base64 at all!!", "unreadable": lambda: base64.b64encode(self.key_for(kid))}[kind]()
        if self.idx % 2:
            # other spellings of the same kinds: a key line followed by a comment line (not base64 as a whole), two keys on two lines (128 bytes),
            # a valid key wrapped over several lines (line breaks are not part of base64 text)
            k64 = base64.b64encode(self.key_for(kid))
            if kind == "nonb64":
                content = k64 + b"\n# anonymongo key - do not delete\n"
            elif kind == "long":
                content = k64 + b"\n" + base64.b64encode(os.urandom(64)) + b"\n"
            elif kind == "validNL":
                content = b"\n".join(k64[i:i + 32] for i in range(0, len(k64), 32)) + b"\r\n"
        with open(self.kpath, "wb") as f:
            f.write(content)
        if self.unpriv:
            os.chown(self.kpath, NOBODY, NOBODY)       # the user owns its key file (an existing file must be writable for it - and still must not be written)
        # unreadable: no permission at all, or (every other behaviour) write-only - a file the user cannot read but could overwrite
        os.chmod(self.kpath, (0o200 if self.idx % 2 else 0o000) if kind == "unreadable" else 0o644)

    def snapshot(self):
        """(type, bytes, mode) of what is at the key path."""
        try:
            st = os.lstat(self.kpath)
        except OSError:
            return ("missing", None, None, os.path.isdir(self.kdir))
        if stat.S_ISDIR(st.st_mode):
            return ("dir", tuple(sorted(os.listdir(self.kpath))), stat.S_IMODE(st.st_mode), True)
        if stat.S_ISLNK(st.st_mode):
            tgt = os.readlink(self.kpath)
            try:
                with open(self.kpath, "rb") as f:
                    data = f.read()
            except OSError:
                data = None
            return ("link", data, tgt, True)
        with open(self.kpath, "rb") as f:
            return ("file", f.read(), stat.S_IMODE(st.st_mode), True)

    def run(self, which, strace=False):
        inp = os.path.join(self.d, "in.log")
        outp = os.path.join(self.d, "out.log")
        with open(inp, "wb") as f:
            f.write({"good": self.good, "abort": self.abort, "benign": self.benign}[which])
        os.chmod(inp, 0o644)
        args = [self.b.cli, "redact", inp, "-o", outp, "--encrypt", "-q", self.kpath]
        st = os.path.join(self.d, "strace.log")
        if os.path.exists(st):
            os.remove(st)
        if strace:
            args = ["strace", "-f", "-qq", "-o", st, "-e", "trace=openat,write,exit_group"] + args
        env = dict(os.environ)
        for k in ("ATLAS_PUBLIC_KEY", "ATLAS_PRIVATE_KEY", "HTTPS_PROXY", "HTTP_PROXY"):
            env.pop(k, None)
        env["TMPDIR"] = self.d
        p = subprocess.run(args, cwd=self.d, env=env, stdin=subprocess.DEVNULL, capture_output=True, timeout=120,
                           preexec_fn=demote if self.unpriv else None)
        out = None
        if os.path.exists(outp):
            with open(outp, "rb") as f:
                out = f.read()
            os.remove(outp)          # the model's CreateOut truncates; a fresh file keeps the unprivileged user able to create it
        ev = None
        if strace and os.path.exists(st):
            ev = self.events(open(st, errors="replace").read())
        return p.returncode, out, p.stderr.decode("utf-8", "replace"), ev

    def events(self, text):
        ev = []
        fds = {}
        for line in text.split("\n"):
            m = re.match(r"^(\d+)\s+(\w+)\((.*)", line)
            if not m:
                continue
            call, rest = m.group(2), m.group(3)
            if call == "openat":
                r = re.search(r"=\s*(-?\d+)", rest)
                fd = int(r.group(1)) if r else -1
                if '/out.log"' in rest and "O_CREAT" in rest:
                    ev.append({"ev": "OutCreated"})
                    if fd >= 0:
                        fds[fd] = "out"
                elif '/my.key"' in rest:
                    if "O_WRONLY" in rest or "O_RDWR" in rest or "O_CREAT" in rest:
                        if fd >= 0:
                            fds[fd] = "keyw"
                    else:
                        ev.append({"ev": "KeyRead"})
                elif fd >= 0 and fd in fds:
                    del fds[fd]
            elif call == "write":
                r = re.match(r"(\d+),", rest)
                fd = int(r.group(1)) if r else -1
                ok = re.search(r"=\s*(\d+)\s*$", rest)
                if fds.get(fd) == "out" and ok:
                    ev.append({"ev": "OutLine"})
                elif fds.get(fd) == "keyw" and ok:
                    if not any(e["ev"] == "KeyWritten" for e in ev):
                        ev.append({"ev": "KeyWritten"})
            elif call == "exit_group":
                mm = re.match(r"(\d+)", rest)
                ev.append({"ev": "Exit", "code": int(mm.group(1)) if mm else -1})
        return ev


def classify(snap):
    if snap[0] == "missing":
        return "absent" if snap[3] else "noparent"
    if snap[0] == "dir":
        return "dir"
    if snap[0] == "link":
        inner = classify(("file", snap[1], 0o644, True)) if snap[1] is not None else "nonb64"
        return "validLink" if inner in ("valid", "validNL") else inner
    if snap[2] is not None and snap[2] & 0o400 == 0:
        return "unreadable"
    data = snap[1]
    if data == b"":
        return "empty"
    try:
        raw = base64.b64decode(data.replace(b"\n", b"").replace(b"\r", b""), validate=True)
    except Exception:
        return "nonb64"
    if len(raw) == 64:
        return "validNL" if data.endswith(b"\n") else "valid"
    return "short" if len(raw) < 64 else "long"


def ciphertexts(out):
    """Strings of the output lines that differ from placeholder-looking text: candidates for ciphertext (base64, >= 20 chars)."""
    cts = []
    for line in (out or b"").split(b"\n"):
        for m in re.finditer(rb'"([A-Za-z0-9+/]{22,}={0,2})"', line):
            cts.append(m.group(1).decode())
    return cts


def key_write_faults(b, v, root, pool, unpriv):
    """A fault exactly at the write of the fresh key (disk full, I/O error, quota): either the run fails and emits nothing, or what
    it emitted decrypts under the key that was stored."""
    if not shutil.which("strace"):
        return 0
    n = 0
    for errno_ in ("ENOSPC", "EIO", "EDQUOT"):
        W = World(b, root, 900 + n, pool, unpriv)
        W.put("absent", 0)
        inp, outp = os.path.join(W.d, "in.log"), os.path.join(W.d, "out.log")
        with open(inp, "wb") as f:
            f.write(W.good)
        os.chmod(inp, 0o644)
        st = os.path.join(W.d, "st.log")
        cmd = ["strace", "-f", "-qq", "-o", st, "-P", W.kpath, "-e", "trace=write", "-e", "inject=write:error=%s" % errno_,
               b.cli, "redact", inp, "-o", outp, "--encrypt", "-q", W.kpath]
        p = subprocess.run(cmd, cwd=W.d, stdin=subprocess.DEVNULL, capture_output=True, timeout=120, preexec_fn=demote if unpriv else None)
        trace = open(st, errors="replace").read() if os.path.exists(st) else ""
        if errno_ not in trace:
            shutil.rmtree(W.d, ignore_errors=True)
            continue            # the fault could not be injected here: nothing to judge
        n += 1
        v.count()
        out = open(outp, "rb").read() if os.path.exists(outp) else b""
        snap = W.snapshot()
        rep = {"fault": "write of the key file fails with " + errno_, "exit": p.returncode, "stderr": p.stderr.decode("utf-8", "replace")[:400],
               "key_path_after": [snap[0], len(snap[1]) if isinstance(snap[1], bytes) else snap[1]], "output_bytes": len(out)}
        cts = ciphertexts(out)
        stored_ok = snap[0] == "file" and classify(snap) in ("valid", "validNL")
        if p.returncode == 0 and not stored_ok:
            v.violation("the run succeeds although the fresh key could not be stored (%s at the key-file write)" % errno_, rep)
        elif cts and not stored_ok:
            v.violation("ciphertext is emitted although the fresh key could not be stored (%s at the key-file write)" % errno_, rep)
        shutil.rmtree(W.d, ignore_errors=True)
    return n


def key_stat_faults(b, v, root, pool, unpriv):
    """A fault at the existence test of a VALID key file (the stat call fails with an I/O error): whatever the run does then, the stored key
    must not be replaced - every earlier redacted log depends on it."""
    if not shutil.which("strace"):
        return 0
    n = 0
    for call in ("newfstatat", "statx", "fstat"):
        for errno_ in ("EIO", "EACCES"):
            W = World(b, root, 950 + n, pool, unpriv)
            W.put("valid", 1)
            before = W.snapshot()
            inp, outp = os.path.join(W.d, "in.log"), os.path.join(W.d, "out.log")
            with open(inp, "wb") as f:
                f.write(W.good)
            os.chmod(inp, 0o644)
            st = os.path.join(W.d, "st.log")
            cmd = ["strace", "-f", "-qq", "-o", st, "-P", W.kpath, "-e", "trace=%s" % call, "-e", "inject=%s:error=%s" % (call, errno_),
                   b.cli, "redact", inp, "-o", outp, "--encrypt", "-q", W.kpath]
            p = subprocess.run(cmd, cwd=W.d, stdin=subprocess.DEVNULL, capture_output=True, timeout=120, preexec_fn=demote if unpriv else None)
            trace = open(st, errors="replace").read() if os.path.exists(st) else ""
            if errno_ not in trace:
                shutil.rmtree(W.d, ignore_errors=True)
                continue            # this build does not make that call on the key path: nothing to judge
            n += 1
            v.count()
            after = W.snapshot()
            if after[:2] != before[:2]:
                v.violation("a valid key file is replaced when the existence test on it fails (%s: %s)" % (call, errno_),
                            {"fault": "%s on the key path fails with %s" % (call, errno_), "exit": p.returncode, "stderr": p.stderr.decode("utf-8", "replace")[:400],
                             "key_bytes_before": len(before[1] or b""), "key_unchanged": False})
            shutil.rmtree(W.d, ignore_errors=True)
    return n


def run(tier):
    v = common.Verdict(PID, tier, "model_checking")
    b = common.build()
    if not b.inproc or "crypto" not in b.ops:
        raise common.Infra("in-process driver needed (Decrypt)")
    unpriv = can_demote()
    maxruns = 2 if tier == "quick" else 3
    t = common.run_tlc("KeyFileMC", "KeyFileMC.cfg", timeout=1500, files={"KeyFileParams.tla": "---- MODULE KeyFileParams ----\nMaxRuns == %d\n====\n" % maxruns})
    if not t.ok:
        raise common.Infra("TLC on KeyFile failed: %s\n%s" % (t.violation, t.out[-1200:]))
    # beyond the bound: KInv (spec/proofs/KeyFileProofs.tla) is inductive for KeyFile.tla - any number of runs, any environment
    # change between runs - and implies KeyBeforeCiphertext, UnusableRefused, SuccessHasKey; NeverOverwrite / CreateOnce hold of every step
    obligations = common.run_tlapm("KeyFileProofs")
    seen, behaviours = set(), []
    for r in t.records:
        k = json.dumps(r["hist"], sort_keys=True)
        if k not in seen:
            seen.add(k)
            behaviours.append(r["hist"])
    t.records = None
    total_behaviours = len(behaviours)
    cap = 9000
    if len(behaviours) > cap:
        # three-run histories: a seeded sample (every two-run history is replayed by the quick tier; TLC itself checks the model on all of them)
        rs = random.Random(v.seed * 7919 + 11)
        behaviours = [behaviours[i] for i in sorted(rs.sample(range(len(behaviours)), cap))]
    if not unpriv:
        behaviours = [h for h in behaviours if not any(x["before"]["kind"] == "unreadable" for x in h)]
        v.assumptions.append("cannot drop privileges in this environment: 'unreadable' key files not exercised")
    root = tempfile.mkdtemp(prefix="c11-", dir=b.root)
    os.chmod(root, 0o777)
    os.chmod(b.root, 0o755)
    pool = sl.Pool(v.seed)
    rng = random.Random(v.seed)
    st_sample = set(rng.sample(range(len(behaviours)), min(len(behaviours), 150 if tier == "quick" else 1200)))
    generated, to_decrypt = [], []
    traces, owners = [], []

    def play(args):
        bi, hist = args
        W = World(b, root, bi, pool, unpriv)
        res = []
        for x in hist:
            if x["run"] == 1 or x["env"] != "none":
                W.put(x["before"]["kind"], x["before"]["key"])
            before = W.snapshot()
            rc, out, err, ev = W.run(x["input"], strace=(bi in st_sample))
            after = W.snapshot()
            res.append((x, before, after, rc, out, err, ev))
        shutil.rmtree(W.d, ignore_errors=True)
        return bi, res, W.keys

    for bi, res, keys in common.parallel_map(play, list(enumerate(behaviours))):
        for (x, before, after, rc, out, err, ev) in res:
            v.count()
            kind = x["before"]["kind"]
            if not (x["run"] == 1 or x["env"] != "none"):
                # the path was left alone since the previous run: judge by what is really there, not by what the model expects
                kind = classify(before)
            v.nontrivial((kind, x["input"], x["env"] != "none"))
            rep = {"key_path_before": kind, "input": x["input"], "run": x["run"], "exit": rc, "stderr": err[:400],
                   "after": [after[0], (after[1] if not isinstance(after[1], bytes) else after[1][:120].decode("latin-1")), oct(after[2]) if isinstance(after[2], int) else after[2]],
                   "output_head": (out or b"")[:600].decode("utf-8", "replace"), "history": [[h["before"]["kind"], h["input"], h["env"]] for h in behaviours[bi]]}
            cts = ciphertexts(out)
            has_output = bool(out and out.strip())
            if kind in ("absent", "empty", "validNL") and x["run"] == 2:
                v.sample({"history": rep["history"], "run": x["run"], "key_path_before": kind, "input": x["input"], "exit": rc, "key_path_after": rep["after"],
                          "output_lines": (out or b"").count(b"\n"), "syscall_events": [e["ev"] for e in ev] if ev else None}, limit=4)
            if kind in ("empty", "short", "long", "nonb64", "dir", "unreadable"):
                if rc == 0:
                    v.violation("an unusable key file (%s) does not make the run fail" % kind, rep)
                elif has_output:
                    v.violation("a run with an unusable key file (%s) emits redacted output" % kind, rep)
                if after != before:
                    v.violation("an unusable key file (%s) is overwritten / changed" % kind, rep)
            elif kind in ("valid", "validNL", "validLink"):
                if after != before:
                    v.violation("an existing valid key file is not left byte-for-byte untouched (%s)" % kind, rep)
                if x["input"] in ("good", "benign") and rc != 0:
                    v.violation("a run with a valid key file fails (%s)" % kind, rep)
                for c in cts:
                    to_decrypt.append((c, before[1].strip(b"\n").decode("latin-1"), "a ciphertext does not decrypt under the key file in use (%s)" % kind, rep))
            elif kind in ("absent", "noparent"):
                created = after[0] == "file"
                if kind == "absent" and x["input"] in ("good", "benign") and rc != 0:
                    v.violation("a run with no key file fails instead of creating one", rep)
                if created:
                    try:
                        raw = base64.b64decode(after[1].strip(b"\n"), validate=True)
                    except Exception:
                        raw = None
                    if raw is None or len(raw) != 64:
                        v.violation("the stored key is not base64 of 64 bytes", rep)
                    else:
                        generated.append(raw)
                        for c in cts:
                            to_decrypt.append((c, base64.b64encode(raw).decode(), "a ciphertext does not decrypt under the freshly stored key", rep))
                    if after[2] != 0o600:
                        v.violation("the stored key file does not have owner-only permissions (mode %s)" % oct(after[2]), rep)
                else:
                    if cts or (has_output and rc == 0):
                        v.violation("ciphertext was written although no key was stored (%s)" % kind, rep)
                    if rc == 0:
                        v.violation("the run succeeds without storing a key (%s)" % kind, rep)
                    if kind == "noparent" and has_output:
                        v.violation("a run that cannot store its key emits redacted output", rep)
            # drift vs. the model
            mk = {"file": "file", "dir": "dir", "missing": "missing", "link": "file"}[after[0]]
            model_after = x["path"]["kind"]
            model_t = "missing" if model_after in ("absent", "noparent") else "dir" if model_after == "dir" else "file"
            if (rc == 0) != (x["exit"] == 0) or mk != model_t:
                v.spec_drift({"before": kind, "input": x["input"], "model": [x["exit"], model_after], "real": [rc, mk]})
            if ev is not None:
                # the order observed at the syscall boundary: key bytes on disk before the first output write
                names = [e["ev"] for e in ev]
                if "OutLine" in names and kind in ("absent",):
                    if "KeyWritten" not in names or names.index("KeyWritten") > names.index("OutLine"):
                        v.violation("ciphertext is written before the fresh key is stored (syscall order)", dict(rep, syscall_events=names))
                traces.append([{"ev": "Init", "kind": kind, "input": x["input"], "lines": 2 if x["input"] == "benign" else 3}] + ev)
                owners.append((kind, x["input"]))
    # all ciphertexts through the real Decrypt
    if to_decrypt:
        reqs = []
        for c, kb64, what, rep in to_decrypt:
            try:
                raw = base64.b64decode(c, validate=True)
            except Exception:
                raw = b""
            reqs.append({"op": "dec", "key_b64": kb64, "data_b64": base64.b64encode(raw).decode()})
        ans = common.run_inproc(b, [{"op": "crypto", "args": reqs}])[0]["result"]
        nbad = 0
        for (c, kb64, what, rep), a in zip(to_decrypt, ans):
            v.count()
            if not a.get("ok"):
                # strings that merely look like base64 (ObjectId placeholders etc. are shorter than 22 chars; binary payloads may match)
                if rep["output_head"].count(c) and len(c) >= 40:
                    nbad += 1
                    if nbad <= 3:
                        v.violation(what, dict(rep, ciphertext=c))
    nkw = key_write_faults(b, v, root, pool, unpriv)
    nks = key_stat_faults(b, v, root, pool, unpriv)
    if len(set(generated)) != len(generated):
        v.violation("two generated keys are equal", {"generated": len(generated)})
    acc, rej, tstates = sl.validate_traces(traces, module="KeyFileTrace", cfg="KeyFileTrace.cfg", timeout=1500, max_rounds=15)
    for ti, ei, ev, why in rej:
        v.spec_drift({"trace_of": owners[ti], "rejected_at_event": ei, "event": ev, "trace": traces[ti]})
    shutil.rmtree(root, ignore_errors=True)
    v.cov.update({"states": t.distinct + tstates, "transitions": t.generated, "traces_validated_against_impl": acc, "traces_rejected": len(rej),
                  "unbounded_proof": {"module": "spec/proofs/KeyFileProofs.tla", "checker": "tlapm", "obligations_proved": obligations,
                                      "theorems": ["InitK", "StepK (KInv is inductive for KeyFileNext, any number of runs)",
                                                   "KInv => KeyBeforeCiphertext /\\ UnusableRefused /\\ SuccessHasKey", "NeverOverwriteStep", "CreateOnceStep"]},
                  "key_stat_fault_runs": nks, "exhaustive": total_behaviours <= 9000, "behaviours_replayed": len(behaviours), "behaviours_of_model": total_behaviours, "runs_per_behaviour": maxruns, "generated_keys_seen": len(generated),
                  "ciphertexts_decrypted": len(to_decrypt), "unprivileged_runs": unpriv,
                  "initial_states": ["absent", "valid", "validNL", "validLink", "empty", "short", "long", "nonb64", "dir", "unreadable", "noparent"],
                  "key_write_fault_runs": nkw,
                  "rule": "every behaviour of KeyFileMC (initial key-path state x per run: good input / input that fails part-way x the environment leaving the path "
                          "alone or putting any other state there) replayed through `redact in -o out --encrypt -q key` as an unprivileged user; after every run: "
                          "unusable => exit != 0, no output, path unchanged; valid => bytes and mode unchanged, ciphertexts decrypt under it; absent => key stored "
                          "(base64 of 64 bytes, mode 0600) and every ciphertext in the output decrypts under it - also when the run fails part-way; generated keys "
                          "pairwise distinct; strace'd runs: key bytes written before the first output write",
                  "trusted_base": ["TLC", "strace", "harness/inproc crypto op (Decrypt)", "lib/streamlib.py"]})
    return v.finish()


def replay(path):
    print(open(path).read()[:6000])
    return 0
