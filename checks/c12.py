"""C12 - namespace pseudonymisation is complete, consistent and confined.
Decided by: RedactorNS (every declared verb x line class x namespace-bearing stage form x nesting), RedactorEW and the
grammar seeds, replayed through the real CLI with and without --redactNamespaces; verdict = whole-line search for the planted
database / collection names, equality of pseudonyms across fields and lines, diff against the flag-off run."""
import re
import common, l3, jsonx
from checks.c01 import _get_by_pos

PID = "C12"
PAIRS = {"w": "base", "wall": "all", "wrepl": "repl", "wsel": "sel", "weager": "eager", "wenc": "enc", "wrdot": "rdot"}


def components(name, full_ns=False):
    """Name components as the statement sees them: a full namespace is 'db.coll' -> P(db).P(coll); a leading '$' of a name
    (collection '$cmd.aggregate') does not take part in the pseudonym."""
    if full_ns and "." in name:
        d, c = name.split(".", 1)
        return components(d) + components(c)
    return name.lstrip("$").split(".")


def judge(byc, res):
    for wname, bname in PAIRS.items():
        if wname not in byc:
            continue
        rw, rb = byc[wname], byc[bname]
        if rw.crash or rb.crash or rw.raw is None or rb.raw is None:
            continue
        cfg = rw.cfg
        gated = l3.is_gated(rw.inp)
        flags = " ".join(cfg.flags())
        # --- completeness
        planted = {}
        all_claimed = True
        for lf in rw.leaves:
            if lf.lab != "ns" or lf.node[0] != 'str':
                continue
            p = lf.path
            claimed = False
            if p == ("attr", "ns"):
                claimed = True
            elif gated and len(p) >= 3 and p[0] == "attr" and p[1] in l3.HOLDERS and not isinstance(p[2], int):
                if len(p) == 3:
                    claimed = p[2] in l3.NS_COMMAND_FIELDS
                else:
                    claimed = l3.in_zone(p)          # $lookup.from, $merge.into ... inside pipelines
            if claimed:
                for comp in components(lf.node[1], full_ns=(lf.path[-1] == "ns")):
                    if len(comp) >= 5 and comp not in ("system", "buckets"):
                        planted.setdefault(comp, []).append(lf)
            else:
                all_claimed = False
        if planted:
            res["nontrivial"].add(hash((wname, "".join(rw.aligned()[0]))) & 0xffffffffffff)
            bad = None
            if all_claimed:
                # a line all of whose namespace positions are claimed by the statement: the names must be gone from the WHOLE line
                for comp in sorted(planted):
                    # (an all-digit component is searched for as a token of its own: the canaries of other leaves carry serial numbers)
                    if (re.search(r"(?<![0-9A-Za-z])%s(?![0-9A-Za-z])" % re.escape(comp), rw.raw) if comp.isdigit() else comp in rw.raw):
                        where = [l3.abstract_path(path) for path, n in jsonx.leaves(rw.out) if n[0] == 'str' and comp in n[1] and not (comp.isdigit() and "q%sx" % comp in n[1])][:3]
                        bad = (comp, ", ".join(where) or "a key")
                        break
            else:
                # otherwise (undeclared verb, damaged envelope, ungated line that still carries a command): position by position
                for comp, lfs in sorted(planted.items()):
                    for lf in lfs:
                        o = _get_by_pos(rw, lf)
                        if o is not None and o[0] == 'str' and comp in o[1]:
                            bad = (comp, l3.abstract_path(lf.path))
                            break
                    if bad:
                        break
            if bad:
                l3.add_violation(res, "namespace name survives --redactNamespaces at %s flags=%s" % (bad[1], flags), rw, {"name": bad[0]})
        # --- consistency and form of pseudonyms
        mapping = {}
        for lf in rw.leaves:
            if lf.lab != "ns" or lf.node[0] != 'str':
                continue
            o = _get_by_pos(rw, lf)
            if o is None or o[0] != 'str' or o == lf.node or not cfg.pseudo_re().match(o[1]):
                continue
            ic, oc = components(lf.node[1], full_ns=(lf.path[-1] == "ns")), cfg.pseudo_split(o[1])
            if len(ic) != len(oc):
                l3.add_violation(res, "pseudonym does not keep the dotted structure at %s flags=%s" % (l3.abstract_path(lf.path), flags), rw, {"in": lf.node[1], "out": o[1]})
                continue
            for a, b in zip(ic, oc):
                if mapping.setdefault(a, b) != b:
                    l3.add_violation(res, "one name, two pseudonyms within a line (%s) flags=%s" % (l3.abstract_path(lf.path), flags), rw,
                                     {"name": a, "pseudonyms": [mapping[a], b]})
        # "each name is always replaced by the same pseudonym": whatever a simple name is replaced by (pseudonym or not), it is the same text at
        # every claimed position of the line - the verb's collection, getMore's collection, $lookup.from, $merge.into.coll ...
        repl_of = {}
        for lf in rw.leaves:
            if lf.lab != "ns" or lf.node[0] != 'str' or "." in lf.node[1] or "$" in lf.node[1] or lf.node[1] == "":
                continue
            p = lf.path
            if not (gated and len(p) >= 3 and p[0] == "attr" and p[1] in l3.HOLDERS and not isinstance(p[2], int)
                    and ((len(p) == 3 and p[2] in l3.NS_COMMAND_FIELDS) or (len(p) > 3 and l3.in_zone(p)))):
                continue
            o = _get_by_pos(rw, lf)
            if o is None or o[0] != 'str' or o == lf.node:
                continue
            if repl_of.setdefault(lf.node[1], o[1]) != o[1]:
                l3.add_violation(res, "one name, two different replacements within a line (%s) flags=%s" % (
                    "neither is a pseudonym" if not (cfg.pseudo_re().match(o[1]) or cfg.pseudo_re().match(repl_of[lf.node[1]])) else
                    "one is not a pseudonym" if not (cfg.pseudo_re().match(o[1]) and cfg.pseudo_re().match(repl_of[lf.node[1]])) else "both pseudonyms", flags), rw,
                                 {"name": lf.node[1], "replacements": [repl_of[lf.node[1]], o[1]], "second_at": l3.abstract_path(lf.path)})
                break
        # 'db.coll' is replaced by 'P(db).P(coll)': attr.ns must be put together from the pseudonyms the same line shows for
        # its database ($db) and its collection (the verb's value / getMore's collection)
        by_text = {}
        ns_leaf = None
        for lf in rw.leaves:
            if lf.lab != "ns" or lf.node[0] != 'str':
                continue
            o = _get_by_pos(rw, lf)
            if o is None or o[0] != 'str' or not cfg.pseudo_re().match(o[1]):
                continue
            if lf.path == ("attr", "ns"):
                ns_leaf = (lf, o[1])
            elif gated and len(lf.path) == 3 and lf.path[1] in l3.HOLDERS and lf.path[2] in l3.NS_COMMAND_FIELDS:
                by_text.setdefault(lf.node[1], set()).add(o[1])
        if ns_leaf is not None and "." in ns_leaf[0].node[1]:
            d, c_ = ns_leaf[0].node[1].split(".", 1)
            for pd in by_text.get(d, ()):
                for pc in by_text.get(c_, ()):
                    if ns_leaf[1] != pd + "." + pc:
                        l3.add_violation(res, "attr.ns is not P(db).P(coll) of the pseudonyms the line shows for its database and collection (%s) flags=%s" % (
                            "collection starts with '$'" if c_.startswith("$") else "other", flags), rw, {"ns": ns_leaf[1], "db": pd, "coll": pc, "names": [d, c_]})
        inv = {}
        for a, b in mapping.items():
            if inv.setdefault(b, a) != a:
                l3.add_violation(res, "two names, one pseudonym flags=%s" % flags, rw, {"names": [inv[b], a], "pseudonym": b})
        g = res["extra"].setdefault("_map", {})
        for a, b in mapping.items():
            if g.setdefault((wname, a), b) != b:
                l3.add_violation(res, "one name, two pseudonyms across lines flags=%s" % flags, rw, {"name": a, "pseudonyms": [g[(wname, a)], b]})
        # --- confinement: the flag changes nothing but namespace positions
        lab = {lf.path: lf.lab for lf in rw.leaves}
        # under --redactFieldNames keys are renamed, so output paths differ from input paths: labels by position (shape is preserved)
        out_leaves = jsonx.leaves(rw.out)
        if len(out_leaves) == len(rw.leaves):
            lab = {op: lf.lab for (op, _), lf in zip(out_leaves, rw.leaves)}
        for ev in l3.walk_both(rb.out, rw.out):
            if wname == "weager":
                # $merge / $out cannot occur inside a sub-pipeline (they must end the top-level pipeline): below such a stage the
                # generator's lines are outside the grammar, and what --redactFieldNames does to their argument names is not claimed
                pth = ev[1]
                nested = [i for i, x in enumerate(pth) if x in ("$merge", "$out") and i > 4]
                if nested:
                    continue
            if ev[0] == 'shape' or (ev[0] == 'key' and ev[2] != ev[3]):
                l3.add_violation(res, "--redactNamespaces changes the structure / a key at %s flags=%s" % (l3.abstract_path(ev[1]), flags), rw, {"flag_off_output": rb.raw[:3000]})
                break
            if ev[0] == 'leaf' and ev[2] != ev[3]:
                # positions in the output of the flag-off run = positions of the input (shape is preserved)
                if lab.get(ev[1]) != "ns":
                    l3.add_violation(res, "--redactNamespaces changes a position that holds no namespace: %s flags=%s" % (l3.abstract_path(ev[1]), flags), rw,
                                     {"flag_off": ev[2], "flag_on": ev[3]})
                    break


def cfgs(tier):
    cs = [l3.Cfg("base"), l3.Cfg("w", ns=True), l3.Cfg("all", num=True, bool=True, ips=True), l3.Cfg("wall", ns=True, num=True, bool=True, ips=True),
          # --redactNamespaces together with --redactFieldsRegexp: names must still be gone although selective mode keeps what does not match
          l3.Cfg("sel", re="anch", match_keys=("zzsecretA",)), l3.Cfg("wsel", re="anch", ns=True, match_keys=("zzsecretA",)),
          # ... and together with --redactFieldNames (the flag must change nothing but namespaces there either)
          # (the planted database names all start with "Dbq" / "70": these prefixes switch field-name redaction on for most lines;
          #  the specification decides that from the abstract namespace relation, so no drift comparison for these two)
          l3.Cfg("eager", eager=True, eager_ns="Dbq", nodrift=True), l3.Cfg("weager", eager=True, ns=True, eager_ns="Dbq", nodrift=True),
          # ... and together with --encrypt (values become ciphertexts; names still become pseudonyms, the same one everywhere)
          l3.Cfg("enc", encrypt=True), l3.Cfg("wenc", encrypt=True, ns=True),
          # ... and with a replacement text that itself contains the separator of namespaces
          l3.Cfg("rdot", replacement="N.A"), l3.Cfg("wrdot", replacement="N.A", ns=True)]
    if tier == "thorough":
        cs += [l3.Cfg("repl", replacement="Ωx"), l3.Cfg("wrepl", replacement="Ωx", ns=True)]
    return cs


def run(tier):
    v = common.Verdict(PID, tier, "model_checking")
    b = common.build(need_inproc=False)
    cs = cfgs(tier)
    rp = l3.Replay(b, v, cs, "checks.c12:judge", variants=3 if tier == "quick" else 6, ns_style=True)
    dump = l3.grammar_dump()
    seeds, _ = l3.grammar_seeds(dump)
    plan = [("RedactorNS", {}), ("RedactorEW", {}),
            ("RedactorGM", {"GMDepth": "0", "GMSeeds": seeds, "GMKinds": '{"plain","num","dollar","nsname"}'})]
    if tier == "thorough":
        plan.append(("RedactorGM", {"GMDepth": "6", "GMWide": "1", "GMMaxFld": "1", "GMMaxArr": "2", "GMTail": "1", "GMSlots": '{"pipeline","update"}',
                                    "GMKinds": '{"plain","nsname"}'}))
    states = trans = 0
    for mod, defs in plan:
        t = l3.generate(mod, mod + ".cfg", cs, defs, rp.sink, timeout=3000)
        if not t.ok:
            raise common.Infra("TLC failed on %s: %s\n%s" % (mod, t.violation, t.out[-800:]))
        states += t.distinct
        trans += t.generated
    rp.finish()
    rp.extra.pop("_map", None)
    v.cov.update({"states": states, "transitions": trans, "traces_validated_against_impl": v.cov["evaluations"], "exhaustive": True,
                  "abstract_cases": rp.records, "flag_sets": [c.desc() for c in cs],
                  "rule": "cases = RedactorNS (16 verbs x 4 components x 2 messages x 4 holders x attr.ns present/absent; aggregate x 10 stage forms x 5 nestings) "
                          "+ RedactorEW + grammar seeds; per-line planted names in several shapes (dotted, system.*, $cmd, non-ASCII); each run with and "
                          "without -w; non-trivial = a line with at least one claimed namespace position; distinct by outcome pattern",
                  "trusted_base": ["TLC", "lib/jsonx.py", "lib/l3.py"]})
    v.assumptions.append("verbs outside the tool's declared list (distinct, explain) are outside the quantifier: only attr.ns and confinement are judged there")
    return v.finish()


def replay(path):
    print(open(path).read()[:6000])
    return 0
