"""C10 - encryption is deterministic, injective, placeholder-equivalent and fail-closed.
Decided by: the same TLC-generated cases (grammar seeds, envelope walk, table walk) run through the real CLI in placeholder mode
and in --encrypt mode, twice in separate processes with one key file; leaf-wise comparison
(out_enc[p] = out_plain[p] = in[p], or out_plain[p] is a placeholder and Decrypt(out_enc[p]) = in[p]); and in-process injection
of unusable key material, where the output must equal the placeholder-mode output."""
import base64, json, os, random, shutil, tempfile
import common, l3, jsonx

PID = "C10"


def inproc(W, requests):
    class B:
        pass
    b = B()
    b.inproc, b.root = W["b"]["inproc"], W["b"]["root"]
    return common.run_inproc(b, requests)


def process_chunk_c10(args):
    chunk_no, recs = args
    W = l3._W
    b = l3._B(W["b"]["cli"])
    cfgs, opts = W["cfgs"], W["opts"]
    seed, nvar = opts["seed"], opts["variants"]
    workdir = tempfile.mkdtemp(prefix="c10-%d-" % chunk_no, dir=W["b"]["root"])
    res = {"evals": 0, "nontrivial": set(), "violations": [], "drift": 0, "drift_samples": [], "samples": [], "crashes": 0,
           "crash_samples": [], "stray": 0, "stray_samples": [], "extra": {}}

    def viol(sig, rep):
        res["violations"].append((sig, rep if len(res["violations"]) < 30 else None))
    try:
        cases = []
        for i, rec in enumerate(recs):
            for v in range(nvar):
                c = l3.Concretiser(seed, chunk_no * 100000 + i, v, styles=["shared_prefix", "unicode", "escapes", "long", "ascii", "control", "nul_tail"])
                tree = c.line(rec["in"], len(cases))
                cases.append((rec, tree, c.leaves, jsonx.dumps(tree)))
        texts = [c[3] for c in cases]
        ids = list(range(len(texts)))
        for pcfg, ecfg in cfgs:
            keyfile = os.path.join(workdir, "k-%s.key" % ecfg.name)
            crashed = {}
            gp, _ = l3.run_with_bisect(b, texts, ids, pcfg, workdir, None, crashed)
            g1, _ = l3.run_with_bisect(b, texts, ids, ecfg, workdir, keyfile, crashed)     # creates the key file
            g2, _ = l3.run_with_bisect(b, texts, ids, ecfg, workdir, keyfile, crashed)     # a separate process re-using it
            res["crashes"] += len(crashed)
            try:
                key_b64 = open(keyfile).read().strip()
            except OSError:
                key_b64 = ""
            todec = []          # (ciphertext, plaintext, gid, path)
            pt2ct = {}
            flags = " ".join(ecfg.flags()) + " --encrypt"
            for gid, (rec, tree, leaves, text) in enumerate(cases):
                op, oe, oe2 = gp.get(gid), g1.get(gid), g2.get(gid)
                if op is None and oe is None:
                    continue
                res["evals"] += 1
                rep = {"cfg": {"flags": flags}, "input_line": text[:5000], "placeholder_output": (op or "")[:5000], "encrypt_output": (oe or "")[:5000]}
                if (op is None) != (oe is None):
                    viol("a line is emitted in one mode only flags=%s" % flags, rep)
                    continue
                if oe != oe2:
                    viol("two separate runs with one key file give different ciphertexts flags=%s" % flags, dict(rep, second_run=(oe2 or "")[:5000]))
                    continue
                tp, te = jsonx.parse(op), jsonx.parse(oe)
                lp, le = jsonx.leaves(tp), jsonx.leaves(te)
                if jsonx.shape(tp) != jsonx.shape(te) or len(lp) != len(leaves):
                    viol("encrypt mode and placeholder mode differ in shape flags=%s" % flags, rep)
                    continue
                nontriv = False
                for lf, (_, np_), (_, ne) in zip(leaves, lp, le):
                    if lf.node[0] != 'str' or np_ == lf.node:
                        if ne != np_:
                            viol("encrypt mode changes a position that placeholder mode %s: %s flags=%s" % (
                                "keeps" if np_ == lf.node else "treats as number/boolean", l3.abstract_path(lf.path), flags), dict(rep, placeholder=np_, encrypted=ne))
                            break
                        continue
                    # placeholder mode replaced this string
                    if ne == np_:
                        continue        # replaced identically in both modes (pseudonym of a name, the IP constant): nothing in clear, nothing to decrypt
                    nontriv = True
                    if ne[0] != 'str' or ne == lf.node:
                        viol("a string that placeholder mode replaces is emitted in clear in encrypt mode at %s flags=%s" % (l3.abstract_path(lf.path), flags), rep)
                        break
                    todec.append((ne[1], lf.node[1], gid, lf.path))
                    if pt2ct.setdefault(lf.node[1], ne[1]) != ne[1]:
                        viol("equal plaintexts, different ciphertexts (%s) flags=%s" % (l3.abstract_path(lf.path), flags), rep)
                        break
                if nontriv:
                    res["nontrivial"].add(hash((tuple(rec["p"][pcfg.name]), ecfg.name)) & 0xffffffffffff)
            # decrypt everything with the key file of this run (in-process Decrypt of the real code)
            if todec and key_b64:
                uniq = sorted(set(ct for ct, _, _, _ in todec))
                reqs = []
                for ct in uniq:
                    try:
                        raw = base64.b64decode(ct, validate=True)
                        reqs.append({"op": "dec", "key_b64": key_b64, "data_b64": base64.b64encode(raw).decode()})
                    except Exception:
                        reqs.append({"op": "dec", "key_b64": key_b64, "data_b64": ""})
                ans = inproc(W, [{"op": "crypto", "args": reqs}])[0]["result"]
                dec = {}
                for ct, a in zip(uniq, ans):
                    dec[ct] = base64.b64decode(a["data_b64"]).decode("utf-8", "replace") if a.get("ok") else None
                ct2pt = {}
                for ct, pt, gid, path in todec:
                    rep = {"cfg": {"flags": flags}, "input_line": cases[gid][3][:5000], "encrypt_output": (g1.get(gid) or "")[:5000], "ciphertext": ct, "expected": pt[:500]}
                    if dec.get(ct) != pt:
                        viol("ciphertext does not decrypt to the original (%s) at %s flags=%s" % ("error" if dec.get(ct) is None else "other text", l3.abstract_path(path), flags), rep)
                        break
                    if ct2pt.setdefault(ct, pt) != pt:
                        viol("different plaintexts, equal ciphertexts flags=%s" % flags, rep)
                        break
            # fail closed: unusable key material at the API level -> exactly the placeholder-mode output
            if chunk_no % 4 == 0 and W["b"]["inproc"]:
                inp = os.path.join(workdir, "fc.in")
                sub = texts[:400]
                with open(inp, "w") as f:
                    f.write("\n".join(sub) + "\n")
                o = {"numbers": pcfg.num, "booleans": pcfg.bool, "ips": pcfg.ips, "namespaces": pcfg.ns, "encrypt": True,
                     "eager": [l3.EAGER_NS] if pcfg.eager else None, "regexp": pcfg.regexp() or ""}
                if pcfg.replacement is not None:
                    o["replacement"] = pcfg.replacement
                for kname, kspec in (("10-byte key", {"key_b64": base64.b64encode(b"0123456789").decode()}),
                                     ("65-byte key", {"key_b64": base64.b64encode(bytes(range(65))).decode()}),
                                     ("empty key", {"key_b64": ""}),
                                     ("no key at all (nil) although encryption is switched on", {"key_nil": True})):
                    outp = os.path.join(workdir, "fc.out")
                    inproc(W, [{"op": "redact", "args": {"opts": dict(o, **kspec), "in": inp, "out": outp}}])
                    for n, line in enumerate(open(outp)):
                        recd = json.loads(line)
                        res["evals"] += 1
                        want = gp.get(n)
                        if want is None:
                            continue
                        if recd.get("o") != want:
                            leaked = [lf.token for lf in cases[n][2] if lf.token and lf.lab in ("user", "any") and lf.token in (recd.get("o") or "") and lf.token not in want]
                            viol("with unusable key material (%s) the output is not the placeholder-mode output%s flags=%s" % (
                                kname, " - a literal is emitted in clear" if leaked else "", flags),
                                 {"input_line": sub[n][:4000], "output": (recd.get("o") or recd.get("p") or "")[:4000], "placeholder_output": want[:4000], "key": kname})
                            break
        # one key file reached through a symbolic link: still one key - two separate runs give the same ciphertexts as the run with the file itself
        if chunk_no % 8 == 1 and cases:
            pcfg, ecfg = cfgs[0]
            kf = os.path.join(workdir, "k-%s.key" % ecfg.name)
            if os.path.exists(kf):
                link = os.path.join(workdir, "k-link.key")
                if os.path.lexists(link):
                    os.remove(link)
                os.symlink(kf, link)
                before = open(kf, "rb").read()
                sub = texts[:200]
                ids_ = list(range(len(sub)))
                crashed = {}
                ref, _ = l3.run_with_bisect(b, sub, ids_, ecfg, workdir, kf, crashed)
                l1, _ = l3.run_with_bisect(b, sub, ids_, ecfg, workdir, link, crashed)
                l2, _ = l3.run_with_bisect(b, sub, ids_, ecfg, workdir, link, crashed)
                res["evals"] += 1
                if open(kf, "rb").read() != before or not os.path.islink(link):
                    viol("a key file reached through a symbolic link is replaced", {"key_path": "symlink -> valid key file"})
                elif l1 != ref or l2 != ref:
                    n = next((i for i in ids_ if l1.get(i) != ref.get(i) or l2.get(i) != ref.get(i)), 0)
                    viol("two runs with one key file (reached through a symbolic link) give different ciphertexts", {"input_line": sub[n][:3000],
                         "with_the_file": (ref.get(n) or "")[:2000], "through_the_link_run1": (l1.get(n) or "")[:2000], "through_the_link_run2": (l2.get(n) or "")[:2000]})
        # through the CLI: --encrypt with an empty --encryptionKeyFile value (no key can be loaded): nothing may come out in clear
        if chunk_no % 8 == 0 and cases:
            pcfg = cfgs[0][0]
            sub = texts[:300]
            inp = os.path.join(workdir, "nk.in")
            with open(inp, "w", encoding="utf-8") as f:
                f.write("\n".join(sub) + "\n")
            outp = os.path.join(workdir, "nk.out")
            p = common.run_cli(b, ["redact", inp, "-o", outp, "--encrypt", "-q", ""] + pcfg.flags(), cwd=workdir)
            res["evals"] += 1
            got = open(outp, encoding="utf-8", errors="replace").read() if os.path.exists(outp) else ""
            if p.returncode == 0 and got:
                _, plain_out, _ = l3.run_batch(b, sub, pcfg, workdir)
                pl = plain_out.split("\n")
                aligned = got.count("\n") == len(sub) == plain_out.count("\n")
                for n, raw in enumerate(got.split("\n") if aligned else []):
                    if n >= len(sub) or not raw or n >= len(pl):
                        continue
                    leaked = [lf.token for lf in cases[n][2] if lf.token and lf.lab == "user" and lf.node[0] == 'str' and len(lf.token) >= 5
                              and lf.token in raw and lf.token not in pl[n]]
                    if leaked:
                        viol("with --encrypt and an empty key-file path a sensitive string is emitted in clear flags=%s" % " ".join(pcfg.flags()),
                             {"input_line": sub[n][:3000], "output": raw[:3000], "literal": leaked[0]})
                        break
        if chunk_no == 0 and cases:
            res["samples"].append({"input_line": texts[0][:700], "placeholder": (gp.get(0) or "")[:700], "encrypted": (g1.get(0) or "")[:900]})
    finally:
        shutil.rmtree(workdir, ignore_errors=True)
    res["nontrivial"] = list(res["nontrivial"])
    return res


def judge(byc, res):
    pass


def cfg_pairs(tier):
    ps = [(l3.Cfg("p0"), l3.Cfg("e0", encrypt=True)),
          (l3.Cfg("p1", num=True, bool=True, ips=True, ns=True, replacement="Rr"), l3.Cfg("e1", num=True, bool=True, ips=True, ns=True, replacement="Rr", encrypt=True))]
    if tier == "thorough":
        ps += [(l3.Cfg("p2", eager=True, num=True), l3.Cfg("e2", eager=True, num=True, encrypt=True)),
               (l3.Cfg("p3", re="unanch", match_keys=("zzsecretA",)), l3.Cfg("e3", re="unanch", match_keys=("zzsecretA",), encrypt=True))]
    return ps


def long_run(b, v, tier):
    """Determinism and injectivity inside ONE long run and across two processes: more distinct sensitive strings than any table of a
    'reasonable' size (2^16, 2^17) holds, the early ones recurring at the end and throughout. equal strings <=> equal ciphertexts."""
    import re as _re, tempfile as _tf, shutil as _sh
    wd = _tf.mkdtemp(prefix="c10long-", dir=b.root)
    ndistinct = 70000 if tier == "quick" else 300000
    rng = random.Random(v.seed * 17 + 3)
    order = list(range(ndistinct)) + list(range(0, 3000)) + [rng.randrange(ndistinct) for _ in range(4000)]
    for j in range(0, len(order), 53):
        order.insert(j, j % 7)
    text = lambda i: "acct-%06d/%s" % (i, "ü" * (i % 3))
    inp = os.path.join(wd, "long.log")
    with open(inp, "w", encoding="utf-8") as f:
        for n, i in enumerate(order):
            f.write('{"t":{"$date":"2025-01-01T00:00:00.000+00:00"},"s":"I","c":"COMMAND","id":%d,"ctx":"conn1","msg":"Slow query","attr":{"ns":"dbq.cq",'
                    '"command":{"find":"cq","filter":{"k":"%s"},"$db":"dbq"}}}\n' % (7000000 + n, text(i)))
    key = os.path.join(wd, "long.key")
    outs = []
    for run_no in (1, 2):
        outp = os.path.join(wd, "long.out%d" % run_no)
        p = common.run_cli(b, ["redact", inp, "-o", outp, "--encrypt", "-q", key], cwd=wd)
        if p.returncode != 0:
            _sh.rmtree(wd, ignore_errors=True)
            raise common.Infra("redact --encrypt failed on the long input: %s" % p.stderr.decode("utf-8", "replace")[:300])
        outs.append(open(outp, encoding="utf-8").read())
    v.count(2)
    v.nontrivial(("long_run", ndistinct))
    cts = _re.findall(r'"filter":\{"k":"([^"]*)"\}', outs[0])
    rep = {"distinct_values_in_run": ndistinct, "lines": len(order)}
    if len(cts) != len(order):
        v.violation("a long --encrypt run does not yield one encrypted value per input line", dict(rep, values_found=len(cts)))
    else:
        fwd, bwd = {}, {}
        for n, (i, ct) in enumerate(zip(order, cts)):
            if ct == text(i):
                v.violation("a sensitive string is emitted in clear in a long --encrypt run", dict(rep, line_no=n, value=text(i)))
                break
            if fwd.setdefault(i, ct) != ct:
                v.violation("equal strings, different ciphertexts within one long run", dict(rep, line_no=n, value=text(i), first=fwd[i], later=ct))
                break
            if bwd.setdefault(ct, i) != i:
                v.violation("different strings, equal ciphertexts within one long run", dict(rep, line_no=n, value=text(i), other_value=text(bwd[ct]), ciphertext=ct))
                break
    if outs[0] != outs[1]:
        v.violation("two separate runs over a long log with one key file give different outputs", rep)
    # (b) long values that agree on a long prefix (buffer sizes 1 KiB ... 32 KiB) and the tool's own ciphertexts fed back as values, same key
    specials = []
    for base in (1023, 1024, 4095, 4096, 4097, 8192, 16384, 32768):
        stem = ("v%05d-" % base + "abcdefghij" * 4000)[:base]
        specials += [stem, stem + "x", stem + "y", stem + "xy" * 300]
    fed_back = cts[:1500] if len(cts) == len(order) else []
    specials += fed_back + [text(i) for i in order[:1500]]
    inp2 = os.path.join(wd, "long2.log")
    with open(inp2, "w", encoding="utf-8") as f:
        for n, sv in enumerate(specials):
            f.write('{"t":{"$date":"2025-01-01T00:00:00.000+00:00"},"s":"I","c":"COMMAND","id":%d,"ctx":"conn1","msg":"Slow query","attr":{"ns":"dbq.cq",'
                    '"command":{"find":"cq","filter":{"k":%s},"$db":"dbq"}}}\n' % (7500000 + n, json.dumps(sv, ensure_ascii=False)))
    outp2 = os.path.join(wd, "long2.out")
    p2 = common.run_cli(b, ["redact", inp2, "-o", outp2, "--encrypt", "-q", key], cwd=wd)
    v.count()
    if p2.returncode != 0:
        v.violation("a log with long values / fed-back ciphertexts stops an --encrypt run", {"exit": p2.returncode, "stderr": p2.stderr.decode("utf-8", "replace")[:300]})
    else:
        cts2 = _re.findall(r'"filter":\{"k":"([^"]*)"\}', open(outp2, encoding="utf-8").read())
        if len(cts2) != len(specials):
            v.violation("a log with long values / fed-back ciphertexts does not yield one encrypted value per line", {"values": len(specials), "found": len(cts2)})
        else:
            seen2 = {}
            for sv, ct in zip(specials, cts2):
                what = "a ciphertext of an earlier run under the same key" if sv in fed_back else "a value of %d bytes" % len(sv.encode("utf-8"))
                if ct == sv:
                    v.violation("a sensitive string is emitted unchanged with --encrypt (%s)" % ("its own earlier ciphertext" if sv in fed_back else "long value"),
                                {"value_head": sv[:80], "value_bytes": len(sv.encode("utf-8"))})
                    break
                if seen2.setdefault(ct, sv) != sv:
                    o = seen2[ct]
                    v.violation("different strings, equal ciphertexts (%s)" % ("values that agree on a long prefix" if sv not in fed_back and o not in fed_back and len(sv) > 900 else
                                                                              "a value and the ciphertext an earlier run made of it" if (sv in fed_back) != (o in fed_back) else "other"),
                                {"a_bytes": len(sv.encode("utf-8")), "b_bytes": len(o.encode("utf-8")), "a_head": sv[:60], "b_head": o[:60], "common_prefix": len(os.path.commonprefix([sv, o]))})
                    break
            # equal strings of the two runs get equal ciphertexts
            if len(cts) == len(order):
                first = dict(zip((text(i) for i in order), cts))
                for sv, ct in zip(specials[-1500:], cts2[-1500:]):
                    if first.get(sv) is not None and first[sv] != ct:
                        v.violation("equal strings, different ciphertexts in two runs with one key file", {"value": sv, "run1": first[sv], "run2": ct})
                        break
    _sh.rmtree(wd, ignore_errors=True)
    return len(order) + len(specials)


def run(tier):
    v = common.Verdict(PID, tier, "model_checking")
    b = common.build()
    if not b.inproc:
        raise common.Infra("in-process driver needed (Decrypt, unusable key material)")
    pairs = cfg_pairs(tier)
    flat = [c for p in pairs for c in p]
    rp = l3.Replay(b, v, pairs, "checks.c10:judge", variants=2 if tier == "quick" else 4, chunk=1000, worker="checks.c10:process_chunk_c10")
    dump = l3.grammar_dump()
    seeds, _ = l3.grammar_seeds(dump)
    plan = [("RedactorEW", {}), ("RedactorGM", {"GMDepth": "0", "GMSeeds": seeds, "GMKinds": '{"plain","email","empty","num","bool","date","oid","b64","dollar"}'}),
            ("RedactorTW", {"TWShapeKinds": '{"s","os","aos","xdate","xbin"}'})]
    if tier == "thorough":
        plan += [("RedactorGM", {"GMDepth": "6", "GMWide": "1", "GMMaxFld": "2", "GMMaxArr": "2", "GMTail": "1", "GMKinds": '{"plain","email","date","oid","b64"}'}),
                 ("RedactorTW", {})]
    states = trans = 0
    for mod, defs in plan:
        t = l3.generate(mod, mod + ".cfg", [c for c in flat if not c.encrypt], defs, rp.sink, timeout=3000)
        if not t.ok:
            raise common.Infra("TLC failed on %s: %s\n%s" % (mod, t.violation, t.out[-800:]))
        states += t.distinct
        trans += t.generated
    rp.finish()
    nlong = long_run(b, v, tier)
    v.cov.update({"states": states, "transitions": trans, "traces_validated_against_impl": v.cov["evaluations"], "exhaustive": True, "long_run_lines": nlong,
                  "abstract_cases": rp.records, "flag_set_pairs": [[p.desc(), e.desc()] for p, e in pairs], "crashed_lines": rp.crashes,
                  "rule": "cases = envelope walk + grammar seeds + table walk; each concretised with near-duplicate literals (40-character common prefix), "
                          "non-ASCII, control characters, long strings; run in placeholder mode, in encrypt mode (fresh key file) and again in a separate "
                          "process with that key file; every ciphertext decrypted by the real Decrypt; every 4th chunk also run in-process with 3 unusable key "
                          "materials; non-trivial = a line with at least one encrypted string; distinct by (predicted outcome pattern, flag set)",
                  "trusted_base": ["TLC", "lib/jsonx.py", "lib/l3.py", "harness/inproc overlay driver (Decrypt, option setters)"]})
    return v.finish()


def replay(path):
    print(open(path).read()[:8000])
    return 0
