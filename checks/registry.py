"""Per-property metadata from which bin/mkmanifest writes MANIFEST.json."""
L3_NOTE = ("Trusted: TLC, the Python judge (lib/jsonx.py ordered JSON reader, lib/l3.py concretiser/aligner), the assumption that "
           "lines are processed independently when batched (checked on its own by C06). The specification's own invariants say "
           "the design admits no bad state; the verdict comes only from the property predicate evaluated on the real CLI's output.")

CHECKS = {
 "C03": dict(
    level="model_checking",
    text="TLC enumerates the table-walk space of spec/RedactorTW.tla (every entry of the five operator tables at every depth x "
         "every context that reaches the table x every leaf shape incl. null, {}, [], nested arrays of documents, extended-JSON "
         "wrappers over wrong kinds) and, in the thorough tier, spec/RedactorFree.tla (full vocabulary square to depth 2); every "
         "state is replayed through the real `anonymongo redact` under several flag sets (placeholder, selective, encrypt) and the "
         "input and output trees are diffed by an independent order-preserving parser. Shape is a whole-tree relation over all "
         "trees, which is exactly what the enumerated state space plus a tree diff reaches and single-path assertions cannot.",
    design="5 C03", note=L3_NOTE,
    technique="TLA+ table-walk/free-mode state enumeration (TLC) replayed on the real CLI; tree-diff judge; spec-drift report"),
}

NOT_YET = {}
