"""Per-property metadata from which bin/mkmanifest writes MANIFEST.json."""
L3_NOTE = ("Trusted: TLC, the Python judge (lib/jsonx.py ordered JSON reader, lib/l3.py concretiser/aligner), the assumption that "
           "lines are processed independently when batched (checked on its own by C06). The specification's own invariants say "
           "the design admits no bad state; the verdict comes only from the property predicate evaluated on the real CLI's output.")

CHECKS = {
 "C03": dict(
    level="model_checking",
    text="TLC enumerates the table-walk space of spec/RedactorTW.tla (every entry of the five operator tables at every depth x "
         "every context that reaches the table x every leaf shape incl. null, {}, [], nested arrays of documents, extended-JSON "
         "wrappers over wrong kinds) and, in the thorough tier, spec/RedactorFree.tla (full vocabulary square to depth 2); every "
         "state is replayed through the real `anonymongo redact` under several flag sets (placeholder, selective, encrypt) and the "
         "input and output trees are diffed by an independent order-preserving parser. Shape is a whole-tree relation over all "
         "trees, which is exactly what the enumerated state space plus a tree diff reaches and single-path assertions cannot.",
    design="5 C03", note=L3_NOTE,
    technique="TLA+ table-walk/free-mode state enumeration (TLC) replayed on the real CLI; tree-diff judge; spec-drift report"),
}

CHECKS["C04"] = dict(
    level="model_checking",
    text="TLC enumerates every line class (RedactorEW: component x message x which attribute carries the command x namespace relation x "
         "damaged envelopes x slot), every vocabulary key in every slot (RedactorFree) and every operator-table entry (RedactorTW); each "
         "state is replayed through the real CLI with exotic number literals and escape-heavy strings outside the zones, and the diff of "
         "input and output trees is required to be confined to the positions the statement allows. Confinement over all attributes of "
         "all lines is a whole-tree relation; exact number-literal text cannot be seen by float comparisons.",
    design="5 C04", note=L3_NOTE,
    technique="TLA+ envelope-walk/free/table-walk state enumeration (TLC) replayed on the real CLI; confinement tree-diff judge")
CHECKS["C01"] = dict(
    level="model_checking",
    text="The environment grammar spec/MongoGrammar.tla labels every leaf position a client can write (user / ref / keep / ns / free) "
         "from the MongoDB manual and the statement, independently of the implementation's tables. TLC walks it in lock-step with the "
         "walker specification (RedactorGM: one shortest path through every grammar edge in every walker context, every leaf kind, plus "
         "a bounded walk with labelled siblings; RedactorEW: every line class x slot; every word of the current operator tables as a "
         "user field name) and each state is replayed through the real CLI under full-redaction flag sets incl. --encrypt and "
         "--redactFieldNames. Verdict: whole-line search for the unique canary of every `user` leaf. Absence from the whole line at "
         "every grammar position is what single-path assertions on 25 fixtures cannot give.",
    design="5 C01", note=L3_NOTE + " The labels of MongoGrammar.tla are the oracle for which positions hold client literals.",
    technique="TLA+ environment grammar + walker spec, TLC-enumerated labelled cases replayed on the real CLI; whole-line canary search")
CHECKS["C05"] = dict(
    level="model_checking",
    text="Same grammar-mode state space as C01 (every grammar edge in every walker context x every literal class), replayed in "
         "placeholder mode with replacement texts containing quotes, backslashes, non-ASCII and the empty string; every redacted leaf "
         "is classified by its position and validated by an independent class test (ISO-8601 parse, 24 hex, strict base64, e-mail "
         "shape, exact replacement text, 0, false); BSON subType must be untouched.",
    design="5 C05", note=L3_NOTE,
    technique="TLA+ grammar-mode cases (TLC) replayed on the real CLI; independent per-class validity judge")

CHECKS["C02"] = dict(
    level="model_checking",
    text="The walker specification has no access to literal contents (only class and position), so non-interference holds of the model "
         "by construction (that is the abstraction); the check turns the abstraction into a statement about the code: every TLC-generated "
         "abstract case with sensitive literals is concretised k times - identical except for the contents of those literals, classes "
         "preserved (all secrets equal; random lengths 0..20 kB, JSON metacharacters, other number notations, both booleans) - and the "
         "k output lines of the real CLI must be byte-identical. A two-run hyperproperty over all positions, which one-run assertions "
         "cannot express.",
    design="5 C02", note=L3_NOTE + " The specification's prediction is used only to select which literals are varied.",
    technique="TLA+ abstraction soundness: k concretisations per TLC-generated abstract case, byte-equality of real CLI outputs")

CHECKS["C14"] = dict(
    level="model_checking",
    text="Grammar-mode states in which up to 2 (thorough 3) user field names on the path are drawn from {non-matching, matching, a dotted "
         "name that matches only unanchored regexps}, with every operator wrapper / array / sub-document nesting of the grammar between "
         "name and literal; replayed through the real CLI with anchored, substring and case-insensitive regexps. Three-valued oracle "
         "written from the statement (must-redact / must-keep / open for search stages and '$field' siblings); the walker "
         "specification's SelectiveExact prediction is compared as drift.",
    design="5 C14", note=L3_NOTE,
    technique="TLA+ grammar-mode cases with matching/non-matching names (TLC) replayed on the real CLI; three-valued path oracle")

CHECKS["C19"] = dict(
    level="model_checking",
    text="TLC checks the design-level invariant IdemInv (spec/RedactorEnv.tla: re-reading every placeholder as a literal of its own class, a "
         "second pass keeps every leaf or replaces it by the same placeholder) on every state of the table-walk, envelope-walk and grammar "
         "seed spaces (thorough: free mode to depth 2); every state is replayed: the real CLI runs twice on multi-line files with the same "
         "value flags and the second output must equal the first byte for byte. The relation quantifies over everything the tool can emit.",
    design="5 C19", note=L3_NOTE,
    technique="TLC invariant IdemInv on the walker spec + two-pass replay of every TLC state on the real CLI, byte comparison")

CHECKS["C12"] = dict(
    level="model_checking",
    text="TLC enumerates spec/RedactorNS.tla (every declared verb x component x message x holder x attr.ns present/absent; aggregate x 10 "
         "namespace-bearing stage forms x 5 nestings), the envelope walk and the grammar seeds; every state is replayed through the real "
         "CLI with and without --redactNamespaces using per-line planted names of several shapes. Verdict: whole-line absence of the "
         "planted names, functional + injective name->pseudonym mapping within and across lines with dotted structure kept, and the "
         "diff against the flag-off run confined to the grammar's `ns` positions - three whole-line / cross-line relations; -w is also run together with -z and with -f (names must be gone, nothing "
         "else may change), attr.ns must be P(db).P(coll) of the pseudonyms the line shows for $db and its collection.",
    design="5 C12", note=L3_NOTE,
    technique="TLA+ namespace generator + grammar `ns` labels (TLC) replayed on the real CLI with/without -w; absence, consistency and confinement judges")

CHECKS["C15"] = dict(
    level="model_checking",
    text="Envelope-walk, grammar-seed and bounded grammar-walk states replayed through the real CLI with and without --redactFieldNames; "
         "the k concretisations of a case put the line into the chosen namespace / a namespace it prefixes / a foreign one and plant "
         "identifiers from six families (1-20 chars, dotted, substrings of each other and of IXSCAN, hex-looking) at the key positions "
         "the statement names, as '$field' references and in seven plan-summary forms. Verdict: token-wise (and for long names "
         "substring) absence, one pseudonym per name component across keys / references / plan summary and across lines, plan-summary "
         "skeleton unchanged, literal values equal to the flag-off run, foreign lines byte-identical to the flag-off run.",
    design="5 C15", note=L3_NOTE,
    technique="TLA+ grammar/envelope cases (TLC) replayed on the real CLI with/without -f; absence, consistency, plan-summary and flag-off-equality judges")

NOT_YET = {}

CHECKS["C10"] = dict(
    level="model_checking",
    text="The walker specification predicts, per TLC-generated state (envelope walk, grammar seeds, table walk), which string leaves "
         "placeholder mode replaces; every state is run through the real CLI in placeholder mode, in --encrypt mode with a fresh key file "
         "and again in a separate process with that key file. Verdict, leaf by leaf: out_enc[p] = out_plain[p] = in[p], or out_plain[p] is "
         "a placeholder and the real Decrypt of out_enc[p] gives in[p]; equal plaintexts <=> equal ciphertexts across lines and processes "
         "(near-duplicate literals with a 40-character common prefix); numbers, booleans, shape identical. Fail-closed: the same cases "
         "in-process with three unusable key materials must give exactly the placeholder-mode output.",
    design="5 C10", note=L3_NOTE + " The in-process overlay driver is trusted for Decrypt and for injecting key material through the option setters.",
    technique="TLC-generated cases replayed on the real CLI in placeholder and encrypt mode (two processes, one key file); leaf-wise equivalence, determinism, injectivity, fail-closed with injected unusable keys")

L2_NOTE = ("Trusted: TLC, the Python judge (lib/streamlib.py: concrete line pool, channel drivers; lib/jsonx.py decides what a JSON object "
           "line is), the overlay in-process driver (fault-injecting reader / writer around the repository's own stream entry points), strace. "
           "The specification's invariants say the design of the scan loop admits no bad state; the verdict comes only from the property "
           "predicate evaluated on bytes / exit status the real code produced; a trace the specification rejects while the predicate holds "
           "is reported as SPEC-DRIFT, not as a violation.")

CHECKS["C06"] = dict(
    level="model_checking",
    text="spec/Stream.tla models the scan loop of reader.go with one action per branch (ScanLine, SkipBlankAtMax, ParseFail, Emit, Eof ...); "
         "TLC checks OutputIsMap, NoRawCopy, OkIsComplete, AppendOnly, BarExact and termination on every sequence of line kinds up to the bound "
         "x final newline x progress bar. Every terminal state is replayed on the real code: the real CLI over file / gzip / multi-member gzip / stdin x stdout / "
         "--outputFile (also over an older, longer file) x LF / CRLF (some runs repeated), long logs of thousands of lines with lines just below the scanner limit, and the in-process stream entry points with 1-byte, 7-byte and unlimited read chunks; "
         "the bytes must equal the concatenation of what each line yields when run alone through the CLI. The recorded executions (one event "
         "per Write call / output line) are validated as behaviours of Stream by TLC (StreamTrace.tla). A relation over sequences and channel "
         "combinations, which single-line fixtures cannot reach.",
    design="5 C06", note=L2_NOTE,
    technique="TLA+ spec of the scan loop model-checked by TLC; every terminal state replayed over all channel combinations of the real CLI; recorded executions trace-validated against the spec")

CHECKS["C07"] = dict(
    level="model_checking",
    text="Three bindings. (1) Stream.tla: TLC enumerates sequences over all line kinds incl. top-level arrays / scalars, truncated objects, trailing "
         "garbage, legacy text lines and over-long lines (OnlyTooLongStops, LongNeverEmitted); terminal states are replayed through the real CLI under "
         "placeholder, all-flags, field-name, selective and encryption modes and trace-validated (the specification has no crash action). (2) RedactorTW / "
         "RedactorEW: every operator-table entry x every value shape incl. $date / $oid / $binary over every scalar kind, arrays and documents, and zone "
         "slots / statement arrays holding the wrong kind of value, batched through the CLI and bisected to the killing line. (3) mutated real lines "
         "between two ordinary lines and nesting probes on both sides of the measured reader limit. Verdict: no crash signature, exit 0 unless a line "
         "exceeds the limit (then an explicit error, nothing passed through), ordinary lines unchanged, a bad line at most one well-formed line.",
    design="5 C07", note=L2_NOTE,
    technique="TLC-enumerated line-kind sequences and table-walk value shapes replayed on the real CLI; crash bisection; mutation driver; measured line limit and nesting probes")

CHECKS["C08"] = dict(
    level="model_checking",
    text="Stream.tla with the fault environment: the k-th output write fails or is short, reading fails in front of / inside line i or at the very "
         "end, each persistently or once (a transient fault); TLC checks FailureReported, PrefixOfFaultFree, OkIsComplete and termination for every line sequence x every fault position. Every "
         "terminal state is replayed in-process with exact k-th-call fault injection around the repository's stream entry points and judged (fault "
         "happened => failure returned; bytes written are a prefix of the fault-free output ending on a line boundary); the executions are "
         "trace-validated against the spec; gzip streams are cut / flipped / read-failed at byte offsets; the real CLI runs against /dev/full "
         "(stdout and --outputFile), a closed pipe, cut and CRC-damaged .gz files, strace-injected ENOSPC, and Atlas mode with a damaged download at host k of n.",
    design="5 C08", note=L2_NOTE,
    technique="TLC-enumerated fault positions replayed with exact fault injection in-process; trace validation; gzip damage at byte offsets; real devices and strace injection through the CLI")

CHECKS["C11"] = dict(
    level="model_checking",
    text="spec/KeyFile.tla: one action per step of the key stage and of a run (CreateOut, StatKey, Generate, WriteKey, ReadKey, WriteCipherLine, "
         "ExitOk, AbortMidRun, NextRun with an environment that may put any other state at the path); TLC checks NeverOverwrite, CreateOnce, "
         "KeyBeforeCiphertext, UnusableRefused, ReadBack, SuccessHasKey over all 11 initial states (incl. a symlinked key) x every sequence of runs (input with a leading line that holds "
         "nothing to encrypt / input failing part-way / input with nothing to encrypt at all x environment change), plus strace-injected faults at the key-file write. Every behaviour is replayed through the real CLI as an unprivileged user with real files; after "
         "every run key-file bytes, mode, exit status and output are judged, every ciphertext is decrypted with the real Decrypt under the key on "
         "disk, generated keys are compared pairwise; strace'd runs are validated as KeyFile behaviours (KeyFileTrace), observing that the key "
         "reaches the disk before the first ciphertext. Beyond the bound: spec/proofs/KeyFileProofs.tla is checked by the TLA+ proof system (tlapm) on every run - "
         "the inductive invariant KInv implies KeyBeforeCiphertext, UnusableRefused and SuccessHasKey after ANY number of runs with any environment change in "
         "between, and NeverOverwrite / CreateOnce hold of every program step; stat faults (EIO / EACCES at the existence test of a valid key) are injected with strace.",
    design="5 C11", note=L2_NOTE,
    technique="TLA+ key-file life-cycle spec model-checked by TLC and proved inductive with tlapm (unbounded runs); every run sequence replayed with real files through the CLI (unprivileged); strace trace validation of write order and strace fault injection")

CHECKS["C18"] = dict(
    level="model_checking",
    text="spec/Cli.tla: one action per validation check of main.go in code order, then the side effects in code order; TLC checks all 2^13 switch "
         "combinations against a three-valued rule table written from the README and the statement (AcceptIffWellDefined, RejectionIsPure, "
         "RunsItsSource, EffectOrder, Decides). All 8192 combinations are replayed through the real CLI in private directories with a fake Atlas "
         "endpoint behind HTTPS_PROXY as network witness (thorough: again with a pre-existing output file and key file; combinations with stdin also with stdin redirected "
         "from a regular file); the composition Cli -> KeyFile -> Stream (spec/Run.tla) is model-checked for cross-module invariants; exit status, message, "
         "directory snapshot, CONNECT log and output are judged against the rule table; strace'd runs (order of output creation, key stage, "
         "network / input access, exit) are validated as behaviours of Cli (CliTrace).",
    design="5 C18", note="Trusted: TLC, the rule table (spec/Cli.tla MustReject / Either, mirrored in checks/c18.py and cross-checked), lib/fakeatlas.py as "
                         "network witness, strace. The verdict comes only from the real CLI's exit status, files and CONNECT log.",
    technique="TLC over all 2^13 switch combinations against a documentation-derived rule table; exhaustive replay on the real CLI with file-system snapshot and fake-endpoint witness; strace trace validation")

ATLAS_NOTE = ("Trusted: TLC, lib/fakeatlas.py (a scripted Atlas API reached by the unmodified binary through HTTPS_PROXY + SSL_CERT_FILE; it records "
              "CONNECT targets, request heads and a listing of the run's private TMPDIR at every request, and verifies digest responses), the overlay "
              "in-process driver for the library level, lib/atlasreplay.py. mongodb+srv resolution needs DNS and is not exercised. The verdict comes only "
              "from what the real code sent, wrote, printed and left behind; a trace the specification rejects while the predicate holds is SPEC-DRIFT.")

CHECKS["C16"] = dict(
    level="model_checking",
    text="spec/Atlas.tla: one action per HTTP exchange (unauthenticated round, digest response, transport retry, response) and per file-system step "
         "(temp file, body copy, registration, per-file output and redaction, clean-up); TLC checks RequestsExact, OutIndexIsHost, SuccessIsComplete "
         "for 1..5 hosts. The fault-free terminal states are replayed through the unmodified CLI behind the fake endpoint and through the library with "
         "many concretisations (ports, empty / multi-member archives, chunked responses, a download that breaks off once, window given / default - "
         "also in a local zone with a recent UTC-offset change, five flag sets incl. --encrypt): CONNECT only to "
         "cloud.mongodb.com:443, one authenticated request per host in connection-string order, project / host / window in every URL, bytes stored "
         "verbatim, <out>.<i> byte-identical to the CLI's redaction of the log text of host i; request histories validated against the spec (AtlasTrace). "
         "The window computation is a state machine of its own (spec/Window.tla: the two setters, the clock, GetStartAndEndDates with its write-back into the "
         "options; GivenIsVerbatim, DefaultIsLastWeek, FirstCallIsPure; the deviation Sticky is named): every behaviour of the bounded model is replayed on the real functions.",
    design="5 C16", note=ATLAS_NOTE,
    technique="TLA+ spec of the download / redaction loop model-checked by TLC; replay on the unmodified CLI behind a fake Atlas endpoint; request-log and output judges; trace validation")

CHECKS["C17"] = dict(
    level="model_checking",
    text="spec/Atlas.tla with the fault environment: TLC checks NoTempAtExit and termination for 1..4 hosts x failing position x fault kind (HTTP "
         "status, reset before headers, body cut after j bytes, payload not gzip, over-long line, damaged archive, output path that cannot be "
         "created, or created but not written; --encrypt with an unusable key file: KeyStageFirst) + success, at CLI and library level. Every terminal state is replayed (several concretisations; thorough: every cut offset) with a "
         "private TMPDIR that is listed at every request - while the client is blocked - and after the process has gone; verdict: the directory is "
         "empty at the end; the (request, temp-count) histories are validated as Atlas behaviours by TLC (AtlasTrace). Beyond the bound: "
         "spec/proofs/AtlasProofs.tla is checked by the TLA+ proof system (tlapm) on every run - TempInv is inductive for AtlasNext and implies NoTempAtExit for ANY "
         "number of hosts, server behaviour and fault position (incl. a temp directory in which no file can be created, fault sequences met by a retrying client).",
    design="5 C17", note=ATLAS_NOTE,
    technique="TLC-enumerated fault positions of the Atlas spec (NoTempAtExit also proved inductive with tlapm for any number of hosts) replayed on the unmodified CLI and the library against a fake endpoint; temp-directory snapshots; trace validation")

CHECKS["C20"] = dict(
    level="model_checking",
    text="spec/Atlas.tla records for every request whether credential material is attached; TLC checks NoChallengeNoCredentials for five server "
         "behaviours (digest, no challenge, Basic, unparseable Digest challenge, 401 after a correct response) x fault positions. Every terminal state "
         "is replayed through the unmodified CLI (key by flag / environment / mixed; keys with URL- / base64-sensitive and non-ASCII characters) and "
         "the library; every artefact (request heads, CONNECT, stdout, stderr, output / temp / other files, returned errors) is scanned for the key "
         "verbatim and in nine encodings incl. Basic (key pairs of several shapes incl. service-account style); runs that end in a usage / help / "
         "rejection print are scanned too; Authorization must be a digest response that verifies against the key, and absent without a "
         "Digest challenge.",
    design="5 C20", note=ATLAS_NOTE,
    technique="TLC-enumerated server behaviours x faults replayed on the unmodified CLI / library; whole-artefact scan for the key in several encodings; server-side digest verification")

CHECKS["C09"] = dict(
    level="fault_enumeration",
    text="spec/Crypto.tla models the two commands stage by stage (choke point -> Encrypt -> base64 -> JSON leaf; key file -> base64 decode -> Decrypt "
         "-> print) with the cipher axiomatised as a deterministic AEAD; TLC checks RoundTrip, NeverWrongPlaintext, NoPlaintextInOutput and DecryptOnlyReads over 21 leaf "
         "classes x 13 positions x 8 states of the decryption key path {same key, same with newline, other key, absent, empty, short, not base64, directory} x 11 alterations (flip first / middle / last byte, truncations, extension, base64 character, "
         "padding, empty, not base64). The scenarios are replayed end to end through `redact --encrypt` (fresh key files) and `decrypt`, the "
         "ciphertext taken from the exact leaf position of the real output; verdict: `Raw value:` equals the original byte for byte, or a "
         "non-zero exit without any plaintext. The axioms are tested on the real Encrypt / Decrypt: round trips up to 8 KiB, wrong keys, every "
         "single-bit flip and every truncation of sample ciphertexts. TLA+ decides the system part; the cipher's algebra is an axiom (DESIGN 6).",
    design="5 C09", note="Trusted: TLC, lib/jsonx.py, the overlay crypto op, and the DAEAD axioms of spec/Crypto.tla - which are tested against the real "
                         "functions (exhaustive single-byte corruption of sample ciphertexts), not proved.",
    technique="TLA+ pipeline spec with axiomatised DAEAD; TLC-enumerated scenario space (class x position x key x alteration) replayed end to end through `redact --encrypt` and `decrypt`; axiom tests on the real functions")

CHECKS["C13"] = dict(
    level="model_checking",
    text="spec/Pseudonym.tla: HashName and its write-only side table at string level over an alphabet containing '$' and '.', the hash an abstract "
         "injective tagging; TLC checks ComponentWise, DollarIrrelevant, HistoryFree and Bijective over every name up to the length bound x every "
         "call history. Every history is replayed in order on the real function (fresh side table per history, two prefixes, two concretisations of "
         "the alphabet) and one global component <-> pseudonym bijection is demanded across all histories; injectivity, stability in a second "
         "process with reversed call order and compositionality are checked on a dictionary (all strings <= 3 over 40 symbols + generated names; "
         "10^6 in the thorough tier) without re-computing any hash; through the real CLI the same names must get the same pseudonyms under flag "
         "sets that must not matter (-w / -f, value flags, --encrypt with two different key files, reversed input).",
    design="5 C13", note="Trusted: TLC, the overlay hashname / hashseq ops, lib/jsonx.py. Collision-freedom of the truncated hash is established on "
                         "the dictionary actually run, not for all strings (DESIGN section 6).",
    technique="TLA+ string-level spec of the pseudonym function and its side table; TLC-enumerated call histories replayed on the real function; global bijection, dictionary and cross-process / cross-flag judges")
