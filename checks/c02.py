"""C02 - output is independent of the redacted values (non-interference).
Decided by: the specification of the walkers cannot look at literal contents (only class and position), so the property is
true of the model by construction; the replay makes it a statement about the code: every abstract case (RedactorGM seeds +
walk, RedactorEW) is concretised k times - identical except for the contents of the sensitive literals, each kept in its
lexical class - and the k output lines of the real CLI must be byte-identical."""
import base64, os, random, tempfile, shutil
import common, l3, jsonx

PID = "C02"
REDACTED = set("gedobzf")


def sensitive_indexes(rec, cfg):
    """Indexes (document order of leaves) of the leaves the specification says this flag set replaces AND the grammar labels as client
    literals."""
    pred = [c for c in rec["p"][cfg.name] if c not in "{}[]KH"]
    return pred


def vary(lf, v, rng, k, cfg=None):
    """New contents for a sensitive leaf, inside its lexical class.  v=1: every string the same text (equal secrets);
    v>=2: random lengths (0 .. 20 kB), metacharacters, notations."""
    t = lf.node[0]
    if t == 'str':
        path = lf.path
        if lf.cls == "email":
            if v == 1:
                return ('str', "same@same.example")
            return ('str', "%s@%s.example" % ("".join(rng.choice("abcxyz019._-") for _ in range(rng.randint(1, 40))).strip(".") or "a", rng.choice(["a", "mail-x", "b.c"])))
        under = path[-1] if path else ""
        if v == 1:
            return ('str', "Zsame")
        if v in (3, 4) and under in ("$date", "$oid", "base64"):
            v = 2
        if v == 3:
            # the secret equals a name that occurs in the same line / run: a field name, the collection, the database, a command word
            return ('str', rng.choice(["uf1", "uf2", "uf3", "collZn", "dbZn", "dbZn.collZn", "find", "filter", "$db"[1:], "ns"]))
        if v == 4:
            # the secret is spelled like something the tool itself emits: a pseudonym, a placeholder of another class, the replacement text
            repl = cfg.repl() if cfg is not None else "REDACTED"
            return ('str', rng.choice([repl + "_0123456789abcdef", repl + "_%016x" % rng.getrandbits(64), repl + "_0123456789abcdef." + repl + "_fedcba9876543210",
                                       repl, repl + "-x", "1970-01-01T00:00:00.000Z", "0" * 24, "AAAAAAAAAAAAAAAAAAA=", "255.255.255.255:65535",
                                       # ... or like a network address (the run may have --redactIPs on)
                                       "10.1.2.3", "192.168.0.7:50312", "fe80::1", "[2001:db8::1]:27017"]))
        if under in ("$date", "$oid", "base64"):
            choice = rng.randint(0, 4)
            if choice == 0:
                return ('str', "")
            if choice == 1:
                return ('str', rng.choice(["not-a-" + under.strip("$") + "-" + str(rng.randint(0, 10 ** 9)), "who%d@mail.example" % rng.randint(0, 999), "10.0.0.%d" % rng.randint(1, 250)]))
            if choice == 2 and under == "$oid":
                return ('str', "%023x" % rng.getrandbits(90))
            if choice == 3 and under == "$date":
                return ('str', "1999-12-31T23:59:59.999+05:30")
            return ('str', base64.b64encode(bytes(rng.getrandbits(8) for _ in range(rng.randint(0, 60)))).decode())
        n = rng.choice([0, 1, 2, 7, 30, 255, 256, 4000, 20000]) if k == 0 else rng.choice([0, 1, 5, 50])
        alphabet = 'abcXYZ019 "\\/<>& é漢\U0001d4b3\t{}[]:,$@.'
        s = "".join(rng.choice(alphabet) for _ in range(n))
        if s.startswith("$"):
            s = "x" + s
        if "@" in s and " " not in s:
            s = s.replace("@", " @")          # must not become e-mail shaped
        return ('str', s)
    if t == 'num':
        return ('num', rng.choice(["0", "1", "-1", "3.14159", "1e10", "-2.5E-3", "123456789012345678901234567890", "0.0", "42",
                                  "1e999", "-2.5E+400", "9" * 320, "1e-999"]))
    if t == 'bool':
        return ('bool', rng.random() < 0.5)
    return lf.node


def set_at(tree, path, node):
    if not path:
        return node
    t, x = tree
    if t == 'obj':
        return ('obj', [(k, set_at(v, path[1:], node) if k == path[0] else v) for k, v in x])
    return ('arr', [set_at(v, path[1:], node) if i == path[0] else v for i, v in enumerate(x)])


def process_chunk_c02(args):
    chunk_no, recs = args
    W = l3._W
    b = l3._B(W["b"]["cli"])
    cfgs, opts = W["cfgs"], W["opts"]
    seed, nvar = opts["seed"], opts["variants"]
    workdir = tempfile.mkdtemp(prefix="c02-%d-" % chunk_no, dir=W["b"]["root"])
    res = {"evals": 0, "nontrivial": set(), "violations": [], "drift": 0, "drift_samples": [], "samples": [], "crashes": 0,
           "crash_samples": [], "stray": 0, "stray_samples": [], "extra": {}}
    try:
        # the runs happen in a directory that an earlier `redact --encrypt` run has used: a valid key file is at the default
        # key path ./anonymongo.enc.key (none of these runs asks for encryption)
        with open(os.path.join(workdir, "anonymongo.enc.key"), "w") as kf:
            kf.write(base64.b64encode(bytes((7 * j + 3) % 256 for j in range(64))).decode())
        base = []
        for i, rec in enumerate(recs):
            c = l3.Concretiser(seed, chunk_no * 100000 + i, 0)
            c.exotic_keys = False
            tree = c.line(rec["in"], i)
            base.append((rec, tree, c.leaves))
        for cfg in cfgs:
            outs = []
            inputs = []
            nsens = []
            for v in range(nvar):
                lines = []
                for i, (rec, tree, leaves) in enumerate(base):
                    pred = [ch for ch in rec["p"][cfg.name] if ch not in "{}[]KH"]
                    t2 = tree
                    cnt = 0
                    if len(pred) == len(leaves):
                        rng = random.Random((seed, chunk_no, i, v, cfg.name).__hash__())
                        big_used = 0
                        for ch, lf in zip(pred, leaves):
                            if ch in REDACTED and lf.lab in ("user", "any") and l3.in_zone(lf.path):
                                cnt += 1
                                if v > 0:
                                    t2 = set_at(t2, lf.path, vary(lf, v, rng, big_used, cfg))
                                    big_used += 1
                    if v == 0:
                        nsens.append(cnt)
                    lines.append(jsonx.dumps(t2))
                crashed = {}
                got, stray = l3.run_with_bisect(b, lines, list(range(len(lines))), cfg, workdir, os.path.join(workdir, "k.key"), crashed, cwd=workdir)
                outs.append(got)
                inputs.append(lines)
                res["crashes"] += len(crashed)
            for i, (rec, tree, leaves) in enumerate(base):
                if nsens[i] == 0:
                    continue
                res["evals"] += nvar
                o0 = outs[0].get(i)
                res["nontrivial"].add(hash((tuple(rec["p"][cfg.name]), cfg.name)) & 0xffffffffffff)
                for v in range(1, nvar):
                    ov = outs[v].get(i)
                    if ov != o0:
                        sig_path = ""
                        for ch, lf in zip([c_ for c_ in rec["p"][cfg.name] if c_ not in "{}[]KH"], leaves):
                            if ch in REDACTED and lf.lab in ("user", "any") and l3.in_zone(lf.path):
                                sig_path = lf.path[1] + "/" + l3.abstract_path(lf.path[2:])
                        sig = "outputs differ when only sensitive literals differ (%s variant) near %s flags=%s" % (
                            {1: "all-equal", 3: "secret equals a name of the line", 4: "secret spelled like a pseudonym / placeholder"}.get(v, "random"), sig_path, " ".join(cfg.flags()))
                        rep = {"cfg": cfg.desc(), "input_a": inputs[0][i][:6000], "input_b": inputs[v][i][:6000],
                               "output_a": (o0 or "")[:6000], "output_b": (ov or "")[:6000], "abstract_case": rec.get("in")}
                        res["violations"].append((sig, rep if len(res["violations"]) < 30 else None))
                        break
        if chunk_no == 0 and base:
            res["samples"].append({"input_a": inputs[0][0][:800], "input_b": inputs[-1][0][:800], "output": (outs[0].get(0) or "")[:800]})
    finally:
        shutil.rmtree(workdir, ignore_errors=True)
    res["nontrivial"] = list(res["nontrivial"])
    return res


def judge(byc, res):   # unused (the comparison is across variants, done in process_chunk_c02)
    pass


def cfgs(tier):
    cs = [l3.Cfg("base"), l3.Cfg("nb", num=True, bool=True, ips=True), l3.Cfg("eager", eager=True, ns=True, num=True)]
    if tier == "thorough":
        cs += [l3.Cfg("repl", replacement="Ω", bool=True), l3.Cfg("sel", re="unanch", num=True)]
    return cs


def run(tier):
    v = common.Verdict(PID, tier, "model_checking")
    b = common.build(need_inproc=False)
    cs = cfgs(tier)
    rp = l3.Replay(b, v, cs, "checks.c02:judge", variants=5 if tier == "quick" else 9, chunk=1200, worker="checks.c02:process_chunk_c02")
    dump = l3.grammar_dump()
    seeds, nseeds = l3.grammar_seeds(dump)
    gm = {"GMDepth": "5", "GMWide": "1", "GMMaxFld": "1", "GMMaxArr": "1", "GMTail": "1", "GMSeeds": "<< >>",
          "GMKinds": '{"plain","email","num","bool","date","oid","b64"}'}
    plan = [("RedactorEW", {}), ("RedactorGM", dict(gm, GMDepth="0", GMSeeds=seeds))]
    if tier == "thorough":
        plan += [("RedactorGM", gm), ("RedactorTW", {"TWShapeKinds": '{"s","as","os","aos","xdate","xoid","xbin"}'})]
    else:
        plan += [("RedactorGM", dict(gm, GMDepth="4"))]
    states = trans = 0
    for mod, defs in plan:
        t = l3.generate(mod, mod + ".cfg", cs, defs, rp.sink, timeout=3000)
        if not t.ok:
            raise common.Infra("TLC failed on %s: %s\n%s" % (mod, t.violation, t.out[-800:]))
        states += t.distinct
        trans += t.generated
    rp.finish()
    v.cov.update({"states": states, "transitions": trans, "traces_validated_against_impl": v.cov["evaluations"], "exhaustive": True,
                  "abstract_cases": rp.records, "flag_sets": [c.desc() for c in cs], "variants_per_case": rp.opts["variants"],
                  "rule": "each abstract case with at least one sensitive literal is concretised k times: variant 0 distinct ASCII contents, variant 1 "
                          "all sensitive strings equal (secrets equal across classes), variant 3 secrets equal to a field / collection / database name of the line, "
                          "variant 4 secrets spelled like a pseudonym, a placeholder of another class or the replacement text, the others random contents of length 0..20 kB with JSON "
                          "metacharacters / numbers of other magnitude and notation (including literals outside the float64 range) / both booleans, classes preserved; everything else byte-identical; "
                          "every run happens in a directory whose default key path holds a valid key file left by an earlier --encrypt run; "
                          "the k outputs are compared as bytes; distinct by (predicted outcome pattern, flag set)",
                  "trusted_base": ["TLC", "lib/l3.py concretiser", "spec prediction is used only to choose WHICH literals are varied"]})
    v.assumptions.append("a sensitive literal = labelled client literal (grammar) that the specification replaces under the flag set")
    return v.finish()


def replay(path):
    print(open(path).read()[:8000])
    return 0
