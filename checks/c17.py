"""C17 - raw downloaded logs never outlive the run.
Decided by: spec/Atlas.tla (one action per request and per file-system step of atlas.go and of the Atlas branch of main.go) model-checked
by TLC for 1..4 hosts x every failing position x every fault kind (HTTP status, connection reset, body cut, payload not gzip, over-long
line, damaged archive, output path that cannot be created) + success, at CLI and library level (NoTempAtExit, Terminates ...). Every
terminal state is replayed: the unmodified CLI behind the fake Atlas endpoint with a private TMPDIR, and the library entry points
in-process; the directory is listed at every request (while the client waits) and after the process has gone; the recorded request
/ temp-directory histories are validated as behaviours of Atlas by TLC (AtlasTrace)."""
import json, os, random, shutil, tempfile
import common, streamlib as sl, atlasreplay as ar

PID = "C17"
KINDS = ("none", "status", "reset", "cut", "notmp", "notgzip", "longline", "gzcut", "outdir", "outfull")


def run(tier):
    v = common.Verdict(PID, tier, "model_checking")
    b = common.build()
    if not b.inproc or "atlas_download" not in b.ops:
        raise common.Infra("in-process atlas driver needed for the library level")
    maxh = 3 if tier == "quick" else 4
    t = ar.run_atlas_mc(maxh, ("digest", "none"), KINDS)
    # beyond the bound: the TLA+ proof system checks that TempInv (spec/proofs/AtlasProofs.tla) is inductive for Atlas.tla and implies
    # NoTempAtExit - for every number of hosts, server behaviour and fault position, not only the ones TLC enumerates
    obligations = common.run_tlapm("AtlasProofs")
    # one record per environment (a reset has two predictions: retried or not)
    envs = {}
    for r in t.records:
        envs.setdefault(json.dumps([r["n"], r["auth"], r["fault"], r["cli"], r.get("keyOk", True)], sort_keys=True), r)
    recs = list(envs.values())
    if tier == "quick":
        recs = [r for r in recs if r["auth"] == "digest" or r["fault"]["kind"] in ("none", "cut", "status")]
    pool = sl.Pool(v.seed)
    root = tempfile.mkdtemp(prefix="c17-", dir=b.root)
    variants = [0, 1] if tier == "quick" else [0, 1, 2, 3]
    work = [(i, r, var) for i, r in enumerate(recs) for var in variants]
    if tier == "thorough":
        # every cut offset of a small payload (hosts 2 of 2)
        base = [r for r in recs if r["fault"]["kind"] == "cut" and r["n"] == 2 and r["fault"]["at"] == 2 and r["auth"] == "digest"]
        for r in base:
            for j in range(0, 60):
                work.append((len(work), dict(r, _cut=j), 100 + j))

    def one(args):
        i, rec, var = args
        c = ar.build_case(rec, pool, var + (v.seed - 1) * 11)
        if "_cut" in rec:
            k = c.names[rec["fault"]["at"] - 1][0]
            c.sc.faults[k] = ("cut", min(rec["_cut"] * 7, len(c.payloads[k])))
        if var % 2 == 1 and "_cut" not in rec:
            # the same first fault, followed by others in case the client tries again (a client that stops at the first failure never sees
            # them): cut -> 404, status -> cut -> 401, reset -> cut -> 403
            for k, f in list(c.sc.faults.items()):
                if f[0] == "cut":
                    c.sc.faults[k] = ("seq", [f, ("cut", 0), ("status", 404, True)])
                elif f[0] == "status":
                    c.sc.faults[k] = ("seq", [f, ("cut", 3), ("status", 401, True)])
                elif f[0] == "reset":
                    c.sc.faults[k] = ("seq", [f, f, ("cut", 1), ("status", 403, True)])
        obs = ar.run_case(b, c, root)
        return rec, c, obs

    traces, owners = [], []
    for rec, c, obs in common.parallel_map(one, work):
        v.count()
        what = "%d hosts, %s, %sfault %s at %s, %s level" % (rec["n"], rec["auth"], "" if rec.get("keyOk", True) else "--encrypt with an unusable key file, ", rec["fault"]["kind"],
                                                           "cluster request" if rec["fault"]["at"] == 0 else "host %d" % rec["fault"]["at"], obs["level"])
        v.nontrivial((rec["n"], rec["fault"]["kind"], rec["fault"]["at"], obs["level"], rec.get("keyOk", True)))
        left = obs["tmp_left"]
        rep = {"scenario": what, "hosts": [hp for _, hp in c.names], "faults": {k: [list(x) if isinstance(x, tuple) else x for x in f] for k, f in c.sc.faults.items()}, "temp_dir_after": left,
               "exit": obs.get("rc"), "stderr": (obs.get("stderr") or b"")[:600].decode("utf-8", "replace") if obs["level"] == "cli" else obs.get("err"),
               "requests": [(r.get("kind"), r.get("host"), bool(r.get("authorization")), len(r.get("tmp") or [])) for r in obs["requests"]]}
        if obs.get("panic"):
            v.violation("the library panics (%s fault)" % rec["fault"]["kind"], rep)
            continue
        if left:
            v.violation("a downloaded log is left in the temporary directory after the run (fault %s at %s of %d, %s level)" % (
                rec["fault"]["kind"] if rec.get("keyOk", True) else "unusable key file with --encrypt", "cluster" if rec["fault"]["at"] == 0 else "host %d" % rec["fault"]["at"], rec["n"], obs["level"]), rep)
        # a fault is never turned into success with files left; success/failure itself is C08/C16 territory but reported as drift
        real_exit = (obs["rc"] if obs["level"] == "cli" else (1 if obs.get("failed") else 0))
        if (real_exit == 0) != (rec["exit"] == 0) and rec["fault"]["kind"] != "reset":
            v.spec_drift({"scenario": what, "model_exit": rec["exit"], "real_exit": real_exit})
        complete = 0
        if obs["level"] == "cli":
            complete = sum(1 for i in obs["outs"] if i < rec["n"] and i + 1 in rec["outs"])  # refined below only for the trace
            complete = len([i for i in obs["outs"] if (i + 1) in rec["outs"]])
        traces.append(ar.events_of(c, obs, complete if obs["level"] == "cli" else 0))
        owners.append(what)
        if rec["fault"]["kind"] == "cut" and rec["n"] >= 2:
            v.sample({"scenario": what, "exit": real_exit, "temp_dir_after": left, "requests": rep["requests"]}, limit=2)
    acc, rej, tstates = sl.validate_traces(traces, module="AtlasTrace", cfg="AtlasTrace.cfg", timeout=1500, max_rounds=15)
    for ti, ei, ev, why in rej:
        v.spec_drift({"trace_of": owners[ti], "rejected_at_event": ei, "event": ev, "trace": traces[ti][:12]})
    shutil.rmtree(root, ignore_errors=True)
    v.cov.update({"states": t.distinct + tstates, "transitions": t.generated, "traces_validated_against_impl": acc, "traces_rejected": len(rej),
                  "exhaustive": True, "environments": len(recs),
                  "unbounded_proof": {"module": "spec/proofs/AtlasProofs.tla", "checker": "tlapm", "obligations_proved": obligations,
                                      "theorems": ["InitTemp", "StepTemp (TempInv is inductive for AtlasNext, any number of hosts)", "TempInv => NoTempAtExit"]}, "runs": len(work), "max_hosts": maxh, "fault_kinds": list(KINDS),
                  "rule": "every terminal state of AtlasMC (hosts 1..max x failing position x fault kind x CLI / library) replayed with several concretisations "
                          "(status 401/404/500/403, cut offsets, ports / no ports, multi-member and empty archives, directory or dangling symlink at <out>.<k>); "
                          "verdict: the run's private TMPDIR is empty once the process has gone / the library call has returned (after DeleteClusterLogs on success)",
                  "trusted_base": ["TLC", "lib/fakeatlas.py", "harness/inproc atlas_download op", "lib/atlasreplay.py"]})
    v.assumptions.append("temp files are recognised by living in the run's private TMPDIR, not by their name")
    return v.finish()


def replay(path):
    print(open(path).read()[:6000])
    return 0
