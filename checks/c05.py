"""C05 - type-aware placeholders: each redacted leaf stays a valid member of its class.
Decided by: grammar-mode states (RedactorGM seeds + bounded walk, RedactorEW) replayed through the real CLI in placeholder
mode with several --replacement strings; verdict = leaf-by-leaf comparison: class of the input leaf (from its position:
$date / $oid / $binary.base64 / e-mail shape / other string / number / boolean) vs. an independent validity test of what
the real code put there (ISO-8601 parse, 24 hex digits, strict base64, e-mail shape, exact replacement text, 0, false)."""
import base64, binascii, datetime, re
import common, l3, jsonx
from checks.c01 import _get_by_pos

PID = "C05"
# "e-mail-shaped" = the WHATWG (HTML living standard) valid e-mail address syntax, with at least one dot in the domain
EMAIL = re.compile(r"^[a-zA-Z0-9.!#$%&'*+/=?^_`{|}~-]+@[a-zA-Z0-9](?:[a-zA-Z0-9-]{0,61}[a-zA-Z0-9])?(?:\.[a-zA-Z0-9](?:[a-zA-Z0-9-]{0,61}[a-zA-Z0-9])?)+$")


def valid_iso(s):
    m = re.fullmatch(r"(\d{4})-(\d\d)-(\d\d)T(\d\d):(\d\d):(\d\d)(\.\d{1,9})?(Z|[+-]\d\d:?\d\d)", s)
    if not m:
        return False
    try:
        datetime.datetime(int(m.group(1)), int(m.group(2)), int(m.group(3)), int(m.group(4)), int(m.group(5)), int(m.group(6)))
        return True
    except ValueError:
        return False


def valid_b64(s):
    try:
        return len(s) % 4 == 0 and len(s) > 0 and base64.b64encode(base64.b64decode(s, validate=True)).decode() == s
    except (binascii.Error, ValueError):
        return False


def leaf_class(lf):
    p = lf.path
    t = lf.node[0]
    if t == 'str':
        if p and p[-1] == "$date":
            return "date"
        if p and p[-1] == "$oid":
            return "oid"
        if len(p) >= 2 and p[-1] == "base64" and p[-2] == "$binary":
            return "binary"
        if lf.cls == "email":
            return "email"
        return "string"
    return {"num": "number", "bool": "boolean"}.get(t)


def judge(byc, res):
    for name, r in byc.items():
        cfg = r.cfg
        if r.crash or r.raw is None or cfg.encrypt:
            continue
        if not l3.is_gated(r.inp):
            continue
        seen_class = set()
        for lf in r.leaves:
            if not l3.in_zone(lf.path) or lf.lab not in ("user", "subtype"):
                continue
            o = _get_by_pos(r, lf)
            if o is None:
                continue
            if lf.lab == "subtype":
                if o != lf.node:
                    l3.add_violation(res, "BSON binary subType changed at %s/%s flags=%s" % (lf.path[1], l3.abstract_path(lf.path[2:]), " ".join(cfg.flags())), r,
                                     {"in": lf.node, "out": o})
                seen_class.add("subtype")
                continue
            if o == lf.node:
                continue            # not redacted here (C01 decides whether it should have been)
            cl = leaf_class(lf)
            if cl is None:
                continue
            seen_class.add(cl)
            ok, want = True, ""
            if o[0] != lf.node[0]:
                ok, want = False, "same JSON type"
            elif cl == "date":
                ok, want = valid_iso(o[1]), "a parseable ISO-8601 instant"
            elif cl == "oid":
                ok, want = re.fullmatch(r"[0-9a-f]{24}", o[1]) is not None, "24 hex digits"
            elif cl == "binary":
                ok, want = valid_b64(o[1]), "valid base64"
            elif cl == "email":
                ok, want = EMAIL.match(o[1]) is not None, "an e-mail-shaped string"
            elif cl == "string":
                ok, want = o[1] == cfg.repl(), "exactly the --replacement text %r" % cfg.repl()
            elif cl == "number":
                ok, want = o[1] == "0", "the number 0"
            elif cl == "boolean":
                ok, want = o[1] is False, "false"
            if not ok:
                sig = "%s leaf replaced by %s, expected %s, at %s/%s" % (cl, "the generic text" if o == ('str', cfg.repl()) else "something else",
                                                                         want if cl != "string" else "the --replacement text",
                                                                         lf.path[1], l3.abstract_path(lf.path[2:]))
                l3.add_violation(res, sig + " flags=" + " ".join(cfg.flags()), r, {"in": lf.node, "out": o, "wanted": want})
        for cl in seen_class:
            res["nontrivial"].add(hash((cl, l3.abstract_path(r.leaves[-1].path[:4]), name, r.rec.get("g"))) & 0xffffffffffff)
        if seen_class:
            toks, _ = r.aligned()
            res["nontrivial"].add(hash(("".join(toks), name)) & 0xffffffffffff)


def cfgs(tier):
    cs = [l3.Cfg("base"),
          l3.Cfg("quote", num=True, bool=True, replacement='q"uo\\te é漢 <x>'),
          l3.Cfg("empty", replacement="", num=True),
          # backslash sequences that look like escapes, and characters JSON can only carry as \\uXXXX escapes (C0 controls, DEL, a non-printable
          # supplementary-plane code point)
          l3.Cfg("esc", replacement="C:\\temp\\new \\u2588 a\\\\b \x01\x07\x0b\x7f\U000e0001", ns=True, bool=True),
          # a replacement text that is itself e-mail shaped (a literal that is no e-mail still becomes exactly this text - once)
          l3.Cfg("mailrepl", replacement="anon@example.org", num=True)]
    if tier == "thorough":
        cs += [l3.Cfg("nl", replacement="tab\there", bool=True), l3.Cfg("long", replacement="R" * 300), l3.Cfg("ns", ns=True, ips=True, replacement="Ω")]
    return cs


def run(tier):
    v = common.Verdict(PID, tier, "model_checking")
    b = common.build()
    cs = cfgs(tier)
    try:
        vocab_fields, _ = l3.vocabulary_fields(b)
    except Exception:
        vocab_fields = None
    rp = l3.Replay(b, v, cs, "checks.c05:judge", variants=3 if tier == "quick" else 4, styles=l3.CLASH_STYLES, clash=True)
    cov = l3.EdgeCoverage(rp.sink)
    dump = l3.grammar_dump()
    all_edges = l3.grammar_edges(dump)
    seeds, nseeds = l3.grammar_seeds(dump)
    allkinds = '{"plain","email","empty","num","bool","null","dollar","date","oid","b64","nsname"}'
    gm = {"GMDepth": "5", "GMWide": "1", "GMMaxFld": "1", "GMMaxArr": "1", "GMTail": "1", "GMSeeds": "<< >>",
          "GMKinds": '{"plain","email","num","bool","date","oid","b64"}'}
    plan = [("RedactorEW", {}, rp.sink),
            ("RedactorGM", dict(gm, GMDepth="0", GMKinds=allkinds, GMSeeds=seeds), cov.sink),
            ("RedactorGM", gm, cov.sink)]
    if vocab_fields:
        # every non-$ word of the operator tables (from, into, coll, db, path, query ...) as a *user field name* holding literals of every class
        plan.append(("RedactorGM", dict(gm, GMDepth="3", GMWide="0", GMFields=vocab_fields, GMKinds='{"plain","email","date","oid"}',
                                        GMSlots='{"filter","documents","update","updates"}'), cov.sink))
    if tier == "thorough":
        plan.append(("RedactorGM", dict(gm, GMDepth="7", GMMaxFld="2", GMMaxArr="2", GMTail="2"), cov.sink))
    states = trans = 0
    for mod, defs, sink in plan:
        t = l3.generate(mod, mod + ".cfg", cs, defs, sink, timeout=3000)
        if not t.ok:
            raise common.Infra("TLC failed on %s: %s\n%s" % (mod, t.violation, t.out[-800:]))
        states += t.distinct
        trans += t.generated
    rp.finish()
    for st in rp.stray_samples[:3]:
        v.violation("an emitted line is not JSON (a replaced leaf is not a member of its class): %s" % st["why"], st)
    v.cov.update({"states": states, "transitions": trans, "traces_validated_against_impl": v.cov["evaluations"], "exhaustive": True,
                  "abstract_cases": rp.records, "flag_sets": [c.desc() for c in cs],
                  "grammar_edges_total": len(all_edges), "grammar_edges_exercised": len(all_edges & cov.seen),
                  "crashed_lines": rp.crashes,
                  "rule": "cases = RedactorGM seeds (one path through each of the grammar's edges x every leaf kind) + bounded walk + RedactorEW; "
                          "each run with replacement texts containing quotes, backslashes, non-ASCII, '<', and the empty string; a case is "
                          "non-trivial when at least one redacted leaf's class was validated; distinct by (class set, position prefix, flag set) and outcome pattern",
                  "trusted_base": ["TLC", "lib/jsonx.py", "lib/l3.py", "Python datetime/base64/re as independent class validators"]})
    return v.finish()


def replay(path):
    print(open(path).read()[:6000])
    return 0
