"""C08 - I/O failures are reported, never turned into silent truncation.
Decided by: spec/Stream.tla with the fault environment (the k-th output write fails or is short; reading fails in front of / inside
line i / at the very end) model-checked by TLC over every line sequence x every fault position (FailureReported, PrefixOfFaultFree,
OkIsComplete, Terminates); every terminal state is replayed on the real stream entry points with fault-injecting reader / writer
(exact k-th call), the executions are validated as behaviours of Stream by TLC (StreamTrace), gzip streams are cut / flipped at
byte offsets, and the real CLI is driven against /dev/full, a closed pipe, damaged .gz files and strace-injected ENOSPC."""
import gzip, json, multiprocessing, os, random, shutil, subprocess, tempfile
import common, streamlib as sl

PID = "C08"
KINDS = ("cmd", "oth", "blank", "txt", "trunc")
_G = {}


def fault_free(b, cfg, data, gz=False, bar=False):
    return {"opts": cfg.opts, "input_b64": common.b64(gzip.compress(data, mtime=0) if gz else data), "gz": gz, "chunk": 0, "bar": bar,
            "bar_max": data.count(b"\n"), "rfail_after": -1}


def judge_fault_run(res, what, rep, a, ff_out, triggered, short=False, flip=False):
    """The property's predicate on one faulty execution of the real code.
    a: driver answer (failed, out bytes); ff_out: output of the fault-free run of the same input."""
    res["evals"] += 1
    if a.get("panic") is not None:
        res["viol"].append(("the run panics on an I/O fault (%s)" % what, dict(rep, panic=a["panic"])))
        return
    out = common.unb64(a["out_b64"])
    rep = dict(rep, failed_reported=a["failed"], error=a.get("err"), output=out.decode("utf-8", "replace")[:4000],
               fault_free_output=ff_out.decode("utf-8", "replace")[:4000])
    if flip:
        # a streaming reader learns about a flipped data byte only at the checksum in the trailer, after it has handed out
        # different data: the demand is "failure is reported, or the output is complete" (header fields are not protected at all)
        if not a["failed"] and out != ff_out:
            res["viol"].append(("a corrupt gzip stream yields other output and no failure is reported (%s)" % what, rep))
        return
    if triggered and not a["failed"]:
        res["viol"].append(("an I/O failure is not reported: the run returns success (%s)" % what, rep))
        return
    if not triggered:
        if a["failed"] or out != ff_out:
            res["viol"].append(("a run in which no fault happened fails or gives other output (%s)" % what, rep))
        return
    if not ff_out.startswith(out):
        res["viol"].append(("what was written before the failure is not a prefix of the fault-free output (%s)" % what, rep))
        return
    if not short and out and not out.endswith(b"\n"):
        res["viol"].append(("a partial line was written before the failure (%s)" % what, rep))


def work(args):
    chunk_no, recs = args
    G = _G
    b, pool, cfgs, seed = G["b"], G["pool"], G["cfgs"], G["seed"]
    res = {"evals": 0, "viol": [], "drift": [], "traces": [], "nontrivial": set(), "sample": None}
    reqs, meta = [], []
    for seq_no, rec in recs:
        for variant in range(G["variants"]):
            lines = sl.concretise(pool, rec["input"], variant + (seed - 1) * 7, seq_no)
            ids = [i for _, _, i in lines]
            cfg = cfgs[(seq_no + variant) % len(cfgs)]
            crlf = (seq_no + variant) % 3 == 0
            data = sl.file_bytes(lines, rec["finalNL"], crlf)
            offs, total = sl.line_offsets(lines, rec["finalNL"], crlf)
            ff = fault_free(b, cfg, data, bar=rec["bar"])
            r = dict(ff)
            what = "no fault"
            if rec["wr"]["kind"] != "none":
                r["wfail_call"] = rec["wr"]["k"]
                r["wshort"] = rec["wr"]["kind"] in ("short", "shortonce")
                r["wonce"] = rec["wr"]["kind"] in ("once", "shortonce")
                # the error value a real descriptor would give (a *PathError around an errno), or an opaque one
                r["werrno"] = ["", "EAGAIN", "ENOSPC", "EINTR", "EPIPE", "EAGAIN"][(seq_no + variant + rec["wr"]["k"]) % 6]
                what = "write #%d %s%s" % (rec["wr"]["k"], "is short" if r["wshort"] else "fails", " once (later writes would succeed)" if r["wonce"] else "") \
                    + (" with " + r["werrno"] if r["werrno"] else "")
            if rec["rd"]["on"]:
                li = rec["rd"]["line"]
                if li <= len(lines):
                    off = offs[li - 1]
                    if rec["rd"]["mid"]:
                        ln = len(lines[li - 1][1].encode("utf-8"))
                        off += max(1, min(ln - 1, ln // 2))
                else:
                    off = total
                r["rfail_after"] = off
                r["chunk"] = [0, 1, 13][(seq_no + variant) % 3]
                r["ronce"] = (seq_no + variant) % 2 == 1        # a transient error (later reads would succeed) or a persistent one
                what = "read fails%s after byte %d (%s line %d of %d)" % (" once" if r["ronce"] else "", off, "inside" if rec["rd"]["mid"] else "in front of", li, len(lines))
            reqs += [ff, r]
            meta.append((seq_no, rec, variant, lines, ids, cfg, crlf, data, what, r))
            if rec["faulted"]:
                res["nontrivial"].add((tuple(rec["input"]), rec["wr"]["k"], rec["wr"]["kind"], rec["rd"]["on"], rec["rd"]["line"], rec["rd"]["mid"]))
    ans = sl.inproc_stream(b, reqs)
    for i, (seq_no, rec, variant, lines, ids, cfg, crlf, data, what, r) in enumerate(meta):
        aff, a = ans[2 * i], ans[2 * i + 1]
        if aff.get("panic") is not None or aff.get("failed"):
            continue        # the fault-free run itself misbehaves: C06 / C07 territory
        ff_out = common.unb64(aff["out_b64"])
        rep = {"opts": cfg.opts, "kinds": rec["input"], "final_newline": rec["finalNL"], "crlf": crlf, "fault": what,
               "request": {k: v for k, v in r.items() if k != "input_b64"}, "input": data.decode("utf-8", "replace")[:5000]}
        if a.get("panic") is None:
            triggered = False
            if rec["wr"]["kind"] != "none":
                triggered = a["write_calls"] >= rec["wr"]["k"]
            if rec["rd"]["on"]:
                triggered = True          # the reader returns the error instead of EOF at the latest
        else:
            triggered = True
        judge_fault_run(res, what, rep, a, ff_out, triggered, short=rec["wr"]["kind"] in ("short", "shortonce"))
        if a.get("panic") is None:
            out = common.unb64(a["out_b64"])
            chunks = sl.split_writes(out, a.get("writes") or [])
            status = "failed" if a["failed"] else "ok"
            res["traces"].append((sl.trace_events(sl.env_of(rec), chunks, ids, status), what + " kinds=" + ",".join(rec["input"])))
            got = [sl.line_index_of(w, ids) for w in sl.out_lines(out)[0]]
            if (got != rec["out"] or status != rec["status"]) and len(res["drift"]) < 5:
                res["drift"].append({"kinds": rec["input"], "fault": what, "predicted": [rec["out"], rec["status"]], "actual": [got, status]})
        if res["sample"] is None and rec["faulted"] and chunk_no == 0:
            res["sample"] = {"kinds": rec["input"], "fault": what, "reported": a.get("failed"), "bytes_written": len(common.unb64(a.get("out_b64", "")))}
    res["nontrivial"] = list(res["nontrivial"])
    return res


def gzip_faults(b, v, tier, seed):
    """Cut / flip the gzip stream of multi-line logs at byte offsets (in-process, ProcessMongoLogFile with .gz)."""
    pool = sl.Pool(seed)
    cfg = sl.stream_cfgs()[0]
    rng = random.Random(seed)
    res = {"evals": 0, "viol": []}
    logs = []
    for n, kinds in enumerate([["cmd", "oth", "cmd", "txt", "cmd"], ["cmd"] * 12, ["oth", "blank", "cmd", "cmd", "trunc", "oth", "cmd"]]):
        lines = sl.concretise(pool, kinds, 1 + n, 900 + n)
        logs.append(sl.file_bytes(lines, True, False))
    multi = gzip.compress(logs[0], mtime=0) + gzip.compress(logs[1], mtime=0)     # multi-member stream
    streams = [(gzip.compress(d, mtime=0), d) for d in logs] + [(multi, logs[0] + logs[1])]
    stride = 1 if tier == "thorough" else 7
    reqs, meta = [], []
    for si, (gzd, plain) in enumerate(streams):
        reqs.append({"opts": cfg.opts, "input_b64": common.b64(gzd), "gz": True, "rfail_after": -1})
        meta.append((si, "ff", 0))
        offs = sorted(set(list(range(0, len(gzd), stride)) + list(range(max(0, len(gzd) - 12), len(gzd))) + list(range(0, min(len(gzd), 14)))))
        for k in offs:
            try:
                gzip.decompress(gzd[:k])
                continue        # a cut exactly at a member boundary leaves a complete, shorter archive: not a fault
            except Exception:
                pass
            reqs.append({"opts": cfg.opts, "input_b64": common.b64(gzd[:k]), "gz": True, "rfail_after": -1, "chunk": [0, 3][k % 2]})
            meta.append((si, "cut", k))
        for k in offs:
            d = bytearray(gzd)
            d[k] ^= 1 << (k % 8)
            reqs.append({"opts": cfg.opts, "input_b64": common.b64(bytes(d)), "gz": True, "rfail_after": -1})
            meta.append((si, "flip", k))
        # a read error in the middle of the compressed stream (not a clean EOF)
        for k in offs[::3]:
            reqs.append({"opts": cfg.opts, "input_b64": common.b64(gzd), "gz": True, "rfail_after": k, "chunk": 5})
            meta.append((si, "rderr", k))
    ans = sl.inproc_stream(b, reqs)
    ff = {}
    for a, (si, kind, k) in zip(ans, meta):
        if kind == "ff":
            ff[si] = common.unb64(a["out_b64"]) if a.get("panic") is None and not a.get("failed") else None
    for a, (si, kind, k) in zip(ans, meta):
        if kind == "ff" or ff.get(si) is None:
            continue
        what = {"cut": "gzip stream cut after %d of %d bytes", "flip": "gzip byte %d of %d flipped", "rderr": "read error after %d of %d compressed bytes"}[kind] % (k, len(streams[si][0]))
        rep = {"stream": si, "fault": what, "gzip_b64": common.b64(streams[si][0]), "opts": cfg.opts}
        judge_fault_run(res, what, rep, a, ff[si], True, flip=(kind == "flip"))
    v.count(res["evals"])
    for sig, rep in res["viol"]:
        v.violation(sig, rep)
    return res["evals"]


def cli_faults(b, v, tier, seed):
    """Real devices and damaged files through the real CLI."""
    pool = sl.Pool(seed)
    wd = tempfile.mkdtemp(prefix="c08cli-", dir=b.root)
    n = 0
    cfgs = sl.stream_cfgs()
    for kinds in (["cmd"] * 5, ["cmd", "oth", "txt", "cmd", "oth", "cmd"], ["cmd"] * 400):
        lines = sl.concretise(pool, kinds, 1, 700 + len(kinds))
        data = sl.file_bytes(lines, True, False)
        inp = os.path.join(wd, "in.log")
        open(inp, "wb").write(data)
        gzp = os.path.join(wd, "in.log.gz")
        open(gzp, "wb").write(gzip.compress(data, mtime=0))
        cfg = cfgs[len(kinds) % len(cfgs)]
        ffr = sl.cli_channel_run(b, data, cfg, "file", "stdout", wd, "ff")
        if ffr["rc"] != 0:
            continue
        ff_out = ffr["out"]

        def check(what, rc, out, stderr, cmd):
            nonlocal n
            n += 1
            v.count()
            rep = {"fault": what, "command": cmd, "exit": rc, "stderr": stderr[:600], "input_lines": len(kinds)}
            if rc == 0:
                v.violation("an I/O failure is not reported: the CLI exits 0 (%s)" % what, rep)
            elif out is not None and not ff_out.startswith(out):
                v.violation("what the CLI wrote before the failure is not a prefix of the fault-free output (%s)" % what,
                            dict(rep, output=out.decode("utf-8", "replace")[:3000]))
            elif out is not None and out and not out.endswith(b"\n"):
                v.violation("the CLI left a partial line behind (%s)" % what, dict(rep, output=out.decode("utf-8", "replace")[-1500:]))

        env = dict(os.environ)
        for k in ("ATLAS_PUBLIC_KEY", "ATLAS_PRIVATE_KEY"):
            env.pop(k, None)
        # 1. stdout is /dev/full
        for src in ("file", "gz", "stdin"):
            args = [b.cli, "redact"] + ([inp] if src == "file" else [gzp] if src == "gz" else []) + cfg.flags
            with open("/dev/full", "wb") as full:
                p = subprocess.run(args, stdin=(open(inp, "rb") if src == "stdin" else subprocess.DEVNULL), stdout=full, stderr=subprocess.PIPE, env=env, timeout=120)
            check("stdout is /dev/full, input from %s" % src, p.returncode, None, p.stderr.decode("utf-8", "replace"), " ".join(args[1:]) + " > /dev/full")
        # 2. --outputFile /dev/full
        for src in ("file", "gz", "stdin"):
            args = [b.cli, "redact"] + ([inp] if src == "file" else [gzp] if src == "gz" else []) + cfg.flags + ["-o", "/dev/full"]
            p = subprocess.run(args, stdin=(open(inp, "rb") if src == "stdin" else subprocess.DEVNULL), stdout=subprocess.PIPE, stderr=subprocess.PIPE, env=env, timeout=120)
            check("--outputFile /dev/full, input from %s" % src, p.returncode, None, p.stderr.decode("utf-8", "replace"), " ".join(args[1:]))
        # 3. stdout is a pipe whose reader has gone away
        args = [b.cli, "redact", inp] + cfg.flags
        rfd, wfd = os.pipe()
        os.close(rfd)
        p = subprocess.run(args, stdin=subprocess.DEVNULL, stdout=wfd, stderr=subprocess.PIPE, env=env, timeout=120)
        os.close(wfd)
        check("stdout is a closed pipe", p.returncode, None, p.stderr.decode("utf-8", "replace"), " ".join(args[1:]) + " | (closed)")
        # 4. damaged .gz files
        gzd = gzip.compress(data, mtime=0)
        cuts = sorted(set([len(gzd) // 3, len(gzd) // 2, len(gzd) - 9, len(gzd) - 1, 11]))
        for k in cuts:
            for oc in ("stdout", "file"):
                bad = os.path.join(wd, "cut.log.gz")
                open(bad, "wb").write(gzd[:k])
                outp = os.path.join(wd, "cut.out")
                args = [b.cli, "redact", bad] + cfg.flags + (["-o", outp] if oc == "file" else [])
                p = subprocess.run(args, stdin=subprocess.DEVNULL, stdout=subprocess.PIPE, stderr=subprocess.PIPE, env=env, timeout=120)
                out = open(outp, "rb").read() if oc == "file" and os.path.exists(outp) else (p.stdout if oc == "stdout" else None)
                check(".gz input cut after %d of %d bytes, output to %s" % (k, len(gzd), oc), p.returncode, out, p.stderr.decode("utf-8", "replace"), " ".join(args[1:]))
        # ... a damaged header on disk (magic number, method): the file is named .gz, so it is a broken archive, not a text log
        for off in (0, 1, 2):
            dh = bytearray(gzd)
            dh[off] ^= 0x55
            bad = os.path.join(wd, "hdr.log.gz")
            open(bad, "wb").write(bytes(dh))
            for oc in ("stdout", "file"):
                outp = os.path.join(wd, "hdr.out")
                args = [b.cli, "redact", bad] + cfg.flags + (["-o", outp] if oc == "file" else [])
                p = subprocess.run(args, stdin=subprocess.DEVNULL, stdout=subprocess.PIPE, stderr=subprocess.PIPE, env=env, timeout=120)
                out = open(outp, "rb").read() if oc == "file" and os.path.exists(outp) else (p.stdout if oc == "stdout" else None)
                check(".gz input with byte %d of the gzip header damaged, output to %s" % (off, oc), p.returncode, out, p.stderr.decode("utf-8", "replace"), " ".join(args[1:]))
        d = bytearray(gzd)
        d[-6] ^= 0x10          # CRC32 trailer
        bad = os.path.join(wd, "crc.log.gz")
        open(bad, "wb").write(bytes(d))
        p = subprocess.run([b.cli, "redact", bad] + cfg.flags, stdin=subprocess.DEVNULL, stdout=subprocess.PIPE, stderr=subprocess.PIPE, env=env, timeout=120)
        n += 1
        v.count()
        if p.returncode == 0 and p.stdout != ff_out:
            v.violation("a corrupt gzip trailer is not reported and the output differs from the fault-free one", {"exit": 0})
        elif p.returncode == 0:
            v.violation("an I/O failure is not reported: the CLI exits 0 (gzip CRC trailer corrupt)", {"exit": 0, "stderr": p.stderr.decode("utf-8", "replace")[:300]})
        # 5. strace: ENOSPC on the output file from the k-th write on
        if shutil.which("strace") and len(kinds) <= 10:
            nobj = sum(1 for k in kinds if k in sl.OBJ_KINDS)
            for src, oc in (("file", "file"), ("stdin", "file"), ("file", "stdout")):
                for k in sorted(set([1, 2, nobj])):
                    # (the output file is named the way the README's own example names it - redacted.log.gz - every other time)
                    outp = os.path.join(wd, "inj.out" if (k + len(src)) % 2 else "inj.redacted.log.gz")
                    if os.path.exists(outp):
                        os.remove(outp)
                    args = [b.cli, "redact"] + ([inp] if src == "file" else []) + cfg.flags + (["-o", outp] if oc == "file" else [])
                    tgt = ["-P", outp] if oc == "file" else []
                    inj = "inject=write:error=ENOSPC:when=%d+" % k
                    sargs = ["strace", "-f", "-qq", "-o", os.path.join(wd, "st.log"), "-e", "trace=write", "-e", inj] + tgt + args
                    if oc == "stdout":
                        # only writes to fd 1: strace cannot filter injection by fd without -P, so stdout goes to a file we name
                        sargs = ["strace", "-f", "-qq", "-o", os.path.join(wd, "st.log"), "-e", "trace=write", "-e", inj, "-P", outp] + args
                        with open(outp, "wb") as so:
                            p = subprocess.run(sargs, stdin=subprocess.DEVNULL, stdout=so, stderr=subprocess.PIPE, env=env, timeout=120)
                    else:
                        p = subprocess.run(sargs, stdin=(open(inp, "rb") if src == "stdin" else subprocess.DEVNULL), stdout=subprocess.PIPE, stderr=subprocess.PIPE, env=env, timeout=120)
                    st = open(os.path.join(wd, "st.log")).read() if os.path.exists(os.path.join(wd, "st.log")) else ""
                    if "ENOSPC" not in st:
                        continue        # the fault did not happen (fewer writes than k): nothing to judge
                    out = open(outp, "rb").read() if os.path.exists(outp) else b""
                    check("ENOSPC injected into the output writes from write #%d on (%s -> %s)" % (k, src, oc), p.returncode, out,
                          p.stderr.decode("utf-8", "replace"), " ".join(args[1:]))
    # 6. a big archive (more than 1 MiB compressed: other read paths, read-ahead, background inflating) cut / damaged in its last quarter
    import random as _rnd, base64 as _b64
    rr = _rnd.Random(seed * 101 + 7)
    big = []
    for j in range(1600 if tier == "quick" else 6000):
        blob = _b64.b64encode(bytes(rr.getrandbits(8) for _ in range(700))).decode()
        big.append('{"t":{"$date":"2025-01-01T00:00:00.000+00:00"},"s":"I","c":"COMMAND","id":%d,"ctx":"conn1","msg":"Slow query","attr":{"ns":"dbq.cq",'
                   '"command":{"find":"cq","filter":{"k":"%s"},"$db":"dbq"},"blob":"%s"}}' % (8100000 + j, blob[:40], blob))
    bdata = ("\n".join(big) + "\n").encode()
    bgz = gzip.compress(bdata, mtime=0)
    cfg = cfgs[0]
    bigp = os.path.join(wd, "big.log.gz")
    open(bigp, "wb").write(bgz)
    pff = subprocess.run([b.cli, "redact", bigp] + cfg.flags, stdin=subprocess.DEVNULL, stdout=subprocess.PIPE, stderr=subprocess.PIPE, env=env, timeout=300)
    if pff.returncode == 0 and len(bgz) > (1 << 20):
        ff_big = pff.stdout
        for what, dmg in (("cut at three quarters", bgz[:len(bgz) * 3 // 4]), ("cut 9 bytes before the end", bgz[:-9]),
                          ("a byte flipped at three quarters", bgz[:len(bgz) * 3 // 4] + bytes([bgz[len(bgz) * 3 // 4] ^ 0x40]) + bgz[len(bgz) * 3 // 4 + 1:])):
            open(bigp, "wb").write(dmg)
            for oc in ("stdout", "file"):
                outp = os.path.join(wd, "big.out")
                args = [b.cli, "redact", bigp] + cfg.flags + (["-o", outp] if oc == "file" else [])
                p = subprocess.run(args, stdin=subprocess.DEVNULL, stdout=subprocess.PIPE, stderr=subprocess.PIPE, env=env, timeout=300)
                out = open(outp, "rb").read() if oc == "file" and os.path.exists(outp) else p.stdout
                n += 1
                v.count()
                rep = {"fault": "a %d-byte .gz archive %s" % (len(bgz), what), "exit": p.returncode, "stderr": p.stderr.decode("utf-8", "replace")[:300],
                       "output_lines": out.count(b"\n"), "fault_free_lines": ff_big.count(b"\n")}
                if p.returncode == 0 and out != ff_big:
                    v.violation("an I/O failure is not reported: the CLI exits 0 with an incomplete output (big .gz archive, %s)" % ("cut" if "cut" in what else "damaged"), rep)
                elif "cut" in what and p.returncode == 0:
                    v.violation("an I/O failure is not reported: the CLI exits 0 (big .gz archive, cut)", rep)
    shutil.rmtree(wd, ignore_errors=True)
    return n


def atlas_faults(b, v, tier, seed):
    """Atlas mode runs one stream per downloaded host log: a damaged download of any host must make the run fail, and every
    <out>.<i> must stay a prefix (whole lines) of the fault-free redaction of host i's log."""
    import atlasreplay as ar
    t = ar.run_atlas_mc(3, ("digest",), ("none", "cut", "notgzip", "gzcut"), clis=(True,))
    envs = {}
    for r in t.records:
        envs.setdefault(json.dumps([r["n"], r["fault"]], sort_keys=True), r)
    pool = sl.Pool(seed)
    root = tempfile.mkdtemp(prefix="c08atl-", dir=b.root)
    work = [(r, var) for r in envs.values() if r["fault"]["kind"] != "none" and r.get("keyOk", True) for var in range(2 if tier == "quick" else 6)]

    def one(args):
        rec, var = args
        c = ar.build_case(rec, pool, var + (seed - 1) * 19)
        wd = tempfile.mkdtemp(prefix="w-", dir=root)
        obs = ar.run_case(b, c, wd)
        # fault-free output per host: the CLI on the intended (undamaged) log
        ff = {}
        for i, (h, _) in enumerate(c.names):
            pth = os.path.join(wd, "ff%d.log" % i)
            with open(pth, "wb") as f:
                f.write(c.plain[h])
            ff[i] = common.run_cli(b, ["redact", pth], cwd=wd).stdout
        shutil.rmtree(wd, ignore_errors=True)
        return rec, c, obs, ff
    n = 0
    for rec, c, obs, ff in common.parallel_map(one, work):
        n += 1
        v.count()
        fk, fat = rec["fault"]["kind"], rec["fault"]["at"]
        what = {"cut": "connection cut in the middle of the body", "notgzip": "payload is not a gzip stream", "gzcut": "downloaded archive is cut short"}[fk]
        rep = {"fault": "%s, host %d of %d" % (what, fat, rec["n"]), "exit": obs["rc"], "stderr": obs["stderr"][:500].decode("utf-8", "replace"),
               "outputs": {i: len(o) for i, o in obs["outs"].items()}}
        if obs["rc"] == 0:
            v.violation("an I/O failure in Atlas mode is not reported: exit 0 (%s, host %d of %d)" % (what, fat, rec["n"]), rep)
            continue
        for i, o in obs["outs"].items():
            if i in ff and not ff[i].startswith(o):
                v.violation("an Atlas output file is not a prefix of the fault-free redaction (%s)" % what, dict(rep, index=i))
            elif o and not o.endswith(b"\n"):
                v.violation("an Atlas output file ends in a partial line (%s)" % what, dict(rep, index=i))
    shutil.rmtree(root, ignore_errors=True)
    return n, t.distinct


def run(tier):
    v = common.Verdict(PID, tier, "model_checking")
    b = common.build()
    if not b.inproc or "stream" not in b.ops:
        raise common.Infra("in-process stream driver needed for exact k-th read/write faults")
    maxlen = 3 if tier == "quick" else 4
    t = sl.run_stream_mc(KINDS, maxlen, wrkinds=("none", "err", "once", "short", "shortonce"), rd_on=True, bars=(True, False))
    recs = list(enumerate(t.records))
    _G.update(b=b, pool=sl.Pool(v.seed), cfgs=sl.stream_cfgs("full"), seed=v.seed, variants=2 if tier == "quick" else 3)
    chunks = [(i, c) for i, c in enumerate(common.chunks(recs, 400))]
    results = common.pool_map(work, chunks)
    traces, owners = [], []
    for r in results:
        v.count(r["evals"])
        for k in r["nontrivial"]:
            v.nontrivial(tuple(map(str, k)))
        for sig, rep in r["viol"]:
            v.violation(sig, rep)
        for d in r["drift"]:
            v.spec_drift(d)
        if r["sample"]:
            v.sample(r["sample"])
        for ev, how in r["traces"]:
            traces.append(ev)
            owners.append(how)
    acc, rej, tstates = sl.validate_traces(traces, timeout=1500)
    for ti, ei, ev, why in rej:
        v.spec_drift({"trace": owners[ti], "rejected_at_event": ei, "event": ev, "init": traces[ti][0]})
    ngz = gzip_faults(b, v, tier, v.seed)
    ncli = cli_faults(b, v, tier, v.seed)
    natl, atl_states = atlas_faults(b, v, tier, v.seed)
    faulted = sum(1 for _, r in recs if r["faulted"])
    v.cov.update({"states": t.distinct + tstates, "transitions": t.generated, "traces_validated_against_impl": acc, "traces_rejected": len(rej),
                  "exhaustive": True, "model_terminal_states_replayed": len(recs), "terminal_states_with_a_fault": faulted,
                  "line_kinds": list(KINDS), "max_len": maxlen, "gzip_fault_runs": ngz, "cli_fault_runs": ncli, "atlas_mode_fault_runs": natl,
                  "fault_kinds": ["k-th write fails", "k-th write is short", "read error in front of line i", "read error inside line i",
                                  "read error at the very end", "gzip cut at offset", "gzip byte flipped at offset", "read error inside the compressed stream",
                                  "/dev/full on stdout", "--outputFile /dev/full", "closed pipe", "cut .gz file", "corrupt gzip CRC", "strace ENOSPC from write k",
                                  "Atlas mode: body cut / non-gzip payload / damaged archive at host k of n"],
                  "rule": "TLC: every sequence over the line kinds up to the bound x every write-fault position/kind x every read-fault position; each "
                          "terminal state replayed in-process with exact fault injection and judged: fault happened => failure reported; output is a byte "
                          "prefix of the fault-free output of the same input, ending on a line boundary unless the failing write itself was short; no fault "
                          "=> success and identical output. A flipped gzip byte may also pass when the output is complete (unprotected header fields).",
                  "trusted_base": ["TLC", "harness/inproc stream driver (fault-injecting reader/writer)", "strace fault injection", "lib/streamlib.py"]})
    v.assumptions.append("exact k-th syscall failure through the CLI is approximated by 'from the k-th write on' (strace counts per thread); exact k-th faults are in-process")
    return v.finish()


def replay(path):
    print(open(path).read()[:8000])
    return 0
