//go:build verif

package main

import "encoding/json"

// hashseq: a list of call histories; each history is run on a fresh side table (the repository's own test resets it the same
// way) and the calls of one history share it. Returns the result of every call.
func init() {
	vHandlers["hashseq"] = func(raw json.RawMessage) (any, error) {
		var a struct {
			Replacement *string    `json:"replacement"`
			Histories   [][]string `json:"histories"`
			KeepTable   bool       `json:"keep_table"`
		}
		if err := json.Unmarshal(raw, &a); err != nil {
			return nil, err
		}
		if a.Replacement != nil {
			SetRedactedString(*a.Replacement)
		} else {
			SetRedactedString(RedactedString)
		}
		out := make([][]string, len(a.Histories))
		for i, h := range a.Histories {
			if !a.KeepTable {
				RedactedFieldMapping = make(map[string]string)
			}
			out[i] = make([]string, len(h))
			for j, n := range h {
				out[i][j] = HashName(n)
			}
		}
		return out, nil
	}
}
