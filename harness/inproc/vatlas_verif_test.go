//go:build verif

package main

import (
	"context"
	"encoding/json"
	"net/http"
	"os"
	"sort"
	"time"
)

func vListDir(dir string) []map[string]any {
	out := []map[string]any{}
	ents, err := os.ReadDir(dir)
	if err != nil {
		return out
	}
	for _, e := range ents {
		info, err := e.Info()
		sz := int64(-1)
		if err == nil {
			sz = info.Size()
		}
		out = append(out, map[string]any{"name": e.Name(), "size": sz})
	}
	sort.Slice(out, func(i, j int) bool { return out[i]["name"].(string) < out[j]["name"].(string) })
	return out
}

func init() {
	// atlas_download: library-level DownloadClusterLogs (+ optional DeleteClusterLogs) against base_url.
	vHandlers["atlas_download"] = func(raw json.RawMessage) (any, error) {
		var a struct {
			BaseURL   string `json:"base_url"`
			Public    string `json:"public"`
			Private   string `json:"private"`
			Project   string `json:"project"`
			Cluster   string `json:"cluster"`
			Start     int    `json:"start"`
			End       int    `json:"end"`
			TmpDir    string `json:"tmpdir"`
			Delete    bool   `json:"delete"`
			TimeoutMs int    `json:"timeout_ms"`
		}
		if err := json.Unmarshal(raw, &a); err != nil {
			return nil, err
		}
		os.Setenv("TMPDIR", a.TmpDir)
		hc := &http.Client{}
		if a.TimeoutMs > 0 {
			hc.Timeout = time.Duration(a.TimeoutMs) * time.Millisecond
		}
		c := NewAtlasClient(hc)
		c.BaseURL = a.BaseURL
		files, err := c.DownloadClusterLogs(context.Background(), a.Public, a.Private, a.Project, a.Cluster, a.Start, a.End)
		res := map[string]any{"files": files, "failed": err != nil, "tmp_after_download": vListDir(a.TmpDir)}
		if err != nil {
			res["err"] = err.Error()
		}
		contents := []string{}
		for _, f := range files {
			b, rerr := os.ReadFile(f)
			if rerr != nil {
				contents = append(contents, "!"+rerr.Error())
			} else {
				contents = append(contents, vB64(b))
			}
		}
		res["contents_b64"] = contents
		if a.Delete && err == nil {
			derr := c.DeleteClusterLogs(context.Background(), files)
			res["delete_failed"] = derr != nil
			res["tmp_after_delete"] = vListDir(a.TmpDir)
		}
		return res, nil
	}

	vHandlers["hosts"] = func(raw json.RawMessage) (any, error) {
		var a []string
		if err := json.Unmarshal(raw, &a); err != nil {
			return nil, err
		}
		out := make([]map[string]any, len(a))
		for i, s := range a {
			h, err := GetHostsFromConnectionString(s)
			if err != nil {
				out[i] = map[string]any{"ok": false, "err": err.Error()}
			} else {
				out[i] = map[string]any{"ok": true, "hosts": h}
			}
		}
		return out, nil
	}

	// dateseq: behaviours of spec/Window.tla - sequences of setter calls and GetStartAndEndDates calls on the option globals
	// (reset to "not given" in front of every sequence); a model clock tick has no counterpart here (time passes by itself).
	vHandlers["dateseq"] = func(raw json.RawMessage) (any, error) {
		var a struct {
			Seqs [][][]any `json:"seqs"`
		}
		if err := json.Unmarshal(raw, &a); err != nil {
			return nil, err
		}
		out := make([][][]int, 0, len(a.Seqs))
		for _, seq := range a.Seqs {
			SetAtlasLogStartDate(0)
			SetAtlasLogEndDate(0)
			res := [][]int{}
			for _, st := range seq {
				op, _ := st[0].(string)
				arg := 0
				if len(st) > 1 {
					if f, ok := st[1].(float64); ok {
						arg = int(f)
					}
				}
				switch op {
				case "start":
					SetAtlasLogStartDate(arg)
				case "end":
					SetAtlasLogEndDate(arg)
				case "call":
					t0 := int(time.Now().Unix())
					s, e := GetStartAndEndDates()
					res = append(res, []int{s, e, t0, int(time.Now().Unix())})
				}
			}
			out = append(out, res)
		}
		return out, nil
	}

	// dates: GetStartAndEndDates after the two setters (called `calls` times, to expose state carried between calls).
	vHandlers["dates"] = func(raw json.RawMessage) (any, error) {
		var a struct {
			Start int `json:"start"`
			End   int `json:"end"`
			Calls int `json:"calls"`
		}
		if err := json.Unmarshal(raw, &a); err != nil {
			return nil, err
		}
		SetAtlasLogStartDate(a.Start)
		SetAtlasLogEndDate(a.End)
		out := [][]int{}
		for i := 0; i < a.Calls; i++ {
			s, e := GetStartAndEndDates()
			out = append(out, []int{s, e})
		}
		return map[string]any{"now": int(time.Now().Unix()), "results": out}, nil
	}
}
