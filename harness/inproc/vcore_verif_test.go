//go:build verif

package main

// In-process conformance driver for /verif (overlay file, never part of the repository).
// It is copied into a scratch copy of the repository's src/ directory and compiled with
// `go test -tags verif -c`.  It reads one JSON request per line from $VERIF_REQ and writes one
// JSON response per line to $VERIF_RESP.  Only entry points that the repository's own tests
// already use are called.

import (
	"bufio"
	"encoding/base64"
	"encoding/json"
	"fmt"
	"os"
	"testing"
)

type vHandler func(args json.RawMessage) (any, error)

var vHandlers = map[string]vHandler{}

type vRequest struct {
	Op   string          `json:"op"`
	Args json.RawMessage `json:"args"`
}

type vOpts struct {
	Replacement *string  `json:"replacement"`
	Numbers     bool     `json:"numbers"`
	Booleans    bool     `json:"booleans"`
	IPs         bool     `json:"ips"`
	Namespaces  bool     `json:"namespaces"`
	Eager       []string `json:"eager"`
	Regexp      string   `json:"regexp"`
	Encrypt     bool     `json:"encrypt"`
	KeyB64      string   `json:"key_b64"` // raw key material, base64 (any length: unusable keys are injected this way)
	KeyNil      bool     `json:"key_nil"`
}

func TestVerifDriver(t *testing.T) {
	reqPath := os.Getenv("VERIF_REQ")
	respPath := os.Getenv("VERIF_RESP")
	if reqPath == "" || respPath == "" {
		t.Skip("VERIF_REQ / VERIF_RESP not set")
	}
	in, err := os.Open(reqPath)
	if err != nil {
		t.Fatal(err)
	}
	defer in.Close()
	out, err := os.Create(respPath)
	if err != nil {
		t.Fatal(err)
	}
	defer out.Close()
	w := bufio.NewWriter(out)
	defer w.Flush()
	sc := bufio.NewScanner(in)
	sc.Buffer(make([]byte, 1<<20), 1<<30)
	for sc.Scan() {
		var req vRequest
		if err := json.Unmarshal(sc.Bytes(), &req); err != nil {
			t.Fatalf("bad request: %v", err)
		}
		resp := map[string]any{"op": req.Op}
		h, ok := vHandlers[req.Op]
		if !ok {
			resp["unsupported"] = true
		} else {
			func() {
				defer func() {
					if r := recover(); r != nil {
						resp["panic"] = fmt.Sprint(r)
					}
				}()
				res, err := h(req.Args)
				if err != nil {
					resp["error"] = err.Error()
				}
				resp["result"] = res
			}()
		}
		b, _ := json.Marshal(resp)
		w.Write(b)
		w.WriteByte('\n')
		w.Flush()
	}
}

func init() {
	vHandlers["ops"] = func(json.RawMessage) (any, error) {
		names := []string{}
		for k := range vHandlers {
			names = append(names, k)
		}
		return names, nil
	}
}

func vB64(b []byte) string { return base64.StdEncoding.EncodeToString(b) }
