//go:build verif

package main

import (
	"bytes"
	"encoding/base64"
	"encoding/json"
	"errors"
	"io"
	"os"
	"syscall"

	"github.com/schollz/progressbar/v3"
)

// vFaultyReader delivers data in chunks and fails at the k-th Read call (1-based; 0 = never)
// or once failAfter bytes have been delivered (-1 = never).
type vFaultyReader struct {
	data      []byte
	pos       int
	chunk     int
	calls     int
	failCall  int
	failAfter int
	once      bool // the fault happens once; later reads succeed again (a transient error)
	fired     bool
}

var errVInjectedRead = errors.New("verif: injected read error")
var errVInjectedWrite = errors.New("verif: injected write error")

func (r *vFaultyReader) Read(p []byte) (int, error) {
	r.calls++
	if r.failCall > 0 && r.calls >= r.failCall && !(r.once && r.fired) {
		r.fired = true
		return 0, errVInjectedRead
	}
	if r.failAfter >= 0 && r.pos >= r.failAfter && !(r.once && r.fired) {
		r.fired = true
		return 0, errVInjectedRead
	}
	if r.pos >= len(r.data) {
		return 0, io.EOF
	}
	n := len(p)
	if r.chunk > 0 && n > r.chunk {
		n = r.chunk
	}
	if r.pos+n > len(r.data) {
		n = len(r.data) - r.pos
	}
	if r.failAfter >= 0 && r.pos+n > r.failAfter && !(r.once && r.fired) {
		n = r.failAfter - r.pos
	}
	copy(p, r.data[r.pos:r.pos+n])
	r.pos += n
	return n, nil
}
func (r *vFaultyReader) Close() error { return nil }

// vFaultyWriter records every Write and fails at the k-th call (1-based; 0 = never); a short
// failure accepts three quarters of the bytes and returns io.ErrShortWrite (a conforming io.Writer).
// Once failed it keeps failing (a full disk stays full).
type vFaultyWriter struct {
	buf      bytes.Buffer
	calls    int
	failCall int
	short    bool
	once     bool // only the failCall-th call fails; later calls succeed again
	errno    string
	writes   []int
}

// the error a write(2) on a real descriptor would surface (*PathError around an errno), or an opaque error value
func (w *vFaultyWriter) fail(opaque error) error {
	var e syscall.Errno
	switch w.errno {
	case "EAGAIN":
		e = syscall.EAGAIN
	case "EINTR":
		e = syscall.EINTR
	case "ENOSPC":
		e = syscall.ENOSPC
	case "EPIPE":
		e = syscall.EPIPE
	default:
		return opaque
	}
	return &os.PathError{Op: "write", Path: "/dev/stdout", Err: e}
}

func (w *vFaultyWriter) Write(p []byte) (int, error) {
	w.calls++
	if w.failCall > 0 && w.calls >= w.failCall && !(w.once && w.calls > w.failCall) {
		if w.short && w.calls == w.failCall {
			n := len(p) * 3 / 4
			w.buf.Write(p[:n])
			w.writes = append(w.writes, n)
			return n, w.fail(io.ErrShortWrite)
		}
		return 0, w.fail(errVInjectedWrite)
	}
	w.buf.Write(p)
	w.writes = append(w.writes, len(p))
	return len(p), nil
}

type vFileReader struct {
	r   io.ReadCloser
	ext string
}

func (f *vFileReader) Open(string) (io.ReadCloser, error) { return f.r, nil }
func (f *vFileReader) GetExtension(string) string         { return f.ext }

func init() {
	vHandlers["stream"] = func(raw json.RawMessage) (any, error) {
		var a struct {
			Opts      vOpts  `json:"opts"`
			InputB64  string `json:"input_b64"`
			Gz        bool   `json:"gz"`        // input is a gzip stream: go through ProcessMongoLogFile with extension .gz
			Chunk     int    `json:"chunk"`     // max bytes per Read (0 = unlimited)
			RFailCall int    `json:"rfail_call"`
			RFailAt   int    `json:"rfail_after"` // -1 = never
			ROnce     bool   `json:"ronce"`
			WFailCall int    `json:"wfail_call"`
			WShort    bool   `json:"wshort"`
			WOnce     bool   `json:"wonce"`
			WErrno    string `json:"werrno"`
			Bar       bool   `json:"bar"`
			BarMax    int    `json:"bar_max"`
		}
		a.RFailAt = -1
		if err := json.Unmarshal(raw, &a); err != nil {
			return nil, err
		}
		vApply(a.Opts)
		data, err := base64.StdEncoding.DecodeString(a.InputB64)
		if err != nil {
			return nil, err
		}
		rd := &vFaultyReader{data: data, chunk: a.Chunk, failCall: a.RFailCall, failAfter: a.RFailAt, once: a.ROnce}
		wr := &vFaultyWriter{failCall: a.WFailCall, short: a.WShort, once: a.WOnce, errno: a.WErrno}
		var bar *progressbar.ProgressBar
		if a.Bar {
			bar = progressbar.NewOptions64(int64(a.BarMax), progressbar.OptionSetWriter(io.Discard))
		}
		var runErr error
		if a.Gz {
			runErr = ProcessMongoLogFile(&vFileReader{r: rd, ext: ".gz"}, "in.log.gz", wr, bar)
		} else {
			runErr = ProcessMongoLogFileFromReader(rd, wr, bar)
		}
		res := map[string]any{
			"out_b64":     base64.StdEncoding.EncodeToString(wr.buf.Bytes()),
			"writes":      wr.writes,
			"write_calls": wr.calls,
			"read_calls":  rd.calls,
			"read_pos":    rd.pos,
			"failed":      runErr != nil,
		}
		if runErr != nil {
			res["err"] = runErr.Error()
		}
		return res, nil
	}
}
