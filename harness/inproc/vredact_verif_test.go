//go:build verif

package main

import (
	"bufio"
	"encoding/base64"
	"encoding/json"
	"fmt"
	"os"
)

func vApply(o vOpts) {
	if o.Replacement != nil {
		SetRedactedString(*o.Replacement)
	} else {
		SetRedactedString(RedactedString)
	}
	SetRedactNumbers(o.Numbers)
	SetRedactBooleans(o.Booleans)
	SetRedactIPs(o.IPs)
	SetRedactNamespaces(o.Namespaces)
	SetEagerRedactionPaths(o.Eager)
	SetRedactedFieldsRegexp(o.Regexp)
	SetShouldEncrypt(o.Encrypt)
	if o.KeyNil || (!o.Encrypt && o.KeyB64 == "") {
		SetEncryptionKey(nil)
	} else {
		k, _ := base64.StdEncoding.DecodeString(o.KeyB64)
		if k == nil {
			k = []byte{}
		}
		SetEncryptionKey(k)
	}
}

func vRedactLine(line string) (out string, errS string, panicS string) {
	defer func() {
		if r := recover(); r != nil {
			panicS = fmt.Sprint(r)
			if panicS == "" {
				panicS = "panic"
			}
		}
	}()
	m, err := RedactMongoLog(line)
	if err != nil {
		return "", "parse: " + err.Error(), ""
	}
	b, err := MarshalOrdered(m)
	if err != nil {
		return "", "marshal: " + err.Error(), ""
	}
	return string(b), "", ""
}

func init() {
	// redact: every line of args.in through RedactMongoLog+MarshalOrdered, panics recovered per line.
	vHandlers["redact"] = func(raw json.RawMessage) (any, error) {
		var a struct {
			Opts vOpts  `json:"opts"`
			In   string `json:"in"`
			Out  string `json:"out"`
		}
		if err := json.Unmarshal(raw, &a); err != nil {
			return nil, err
		}
		vApply(a.Opts)
		in, err := os.Open(a.In)
		if err != nil {
			return nil, err
		}
		defer in.Close()
		out, err := os.Create(a.Out)
		if err != nil {
			return nil, err
		}
		defer out.Close()
		w := bufio.NewWriterSize(out, 1<<20)
		defer w.Flush()
		sc := bufio.NewScanner(in)
		sc.Buffer(make([]byte, 1<<20), 1<<28)
		n, panics := 0, 0
		for sc.Scan() {
			o, e, p := vRedactLine(sc.Text())
			rec := map[string]any{"i": n}
			if p != "" {
				rec["p"] = p
				panics++
			} else if e != "" {
				rec["e"] = e
			} else {
				rec["o"] = o
			}
			b, _ := json.Marshal(rec)
			w.Write(b)
			w.WriteByte('\n')
			n++
		}
		return map[string]any{"lines": n, "panics": panics}, sc.Err()
	}

	// tables: dump of the operator tables as nested JSON, for comparison with OperatorTables.tla.
	vHandlers["tables"] = func(json.RawMessage) (any, error) {
		names := map[OperatorType]string{Pipeline: "Pipeline", Exempt: "Exempt", Redactable: "Redactable",
			FieldName: "FieldName", OperatorArray: "OperatorArray", OperatorMap: "OperatorMap", Namespace: "Namespace"}
		var dump func(m OrderedMap) any
		dump = func(m OrderedMap) any {
			out := []any{}
			for el := m.Front(); el != nil; el = el.Next() {
				switch v := el.Value.(type) {
				case OperatorType:
					out = append(out, []any{el.Key, names[v]})
				case OrderedMap:
					out = append(out, []any{el.Key, dump(v)})
				case nil:
					out = append(out, []any{el.Key, "Nil"})
				default:
					out = append(out, []any{el.Key, fmt.Sprintf("?%T", v)})
				}
			}
			return out
		}
		return map[string]any{
			"CoreOperators":              dump(CoreOperators),
			"AggregationOperators":       dump(AggregationOperators),
			"SearchOperators":            dump(SearchOperators),
			"SearchAggregationOperators": dump(SearchAggregationOperators),
			"OperatorMapDefs":            dump(OperatorMapDefs),
			"TopLevelSearchOperators":    TopLevelSearchOperators,
		}, nil
	}

	// hashname: HashName called in the given order with the given replacement prefix.
	vHandlers["hashname"] = func(raw json.RawMessage) (any, error) {
		var a struct {
			Replacement *string  `json:"replacement"`
			Names       []string `json:"names"`
		}
		if err := json.Unmarshal(raw, &a); err != nil {
			return nil, err
		}
		if a.Replacement != nil {
			SetRedactedString(*a.Replacement)
		} else {
			SetRedactedString(RedactedString)
		}
		out := make([]string, len(a.Names))
		for i, n := range a.Names {
			out[i] = HashName(n)
		}
		return out, nil
	}

	vHandlers["isemail"] = func(raw json.RawMessage) (any, error) {
		var a []string
		if err := json.Unmarshal(raw, &a); err != nil {
			return nil, err
		}
		out := make([]bool, len(a))
		for i, s := range a {
			out[i] = IsEmail(s)
		}
		return out, nil
	}

	vHandlers["plansummary"] = func(raw json.RawMessage) (any, error) {
		var a []string
		if err := json.Unmarshal(raw, &a); err != nil {
			return nil, err
		}
		out := make([][]string, len(a))
		for i, s := range a {
			out[i] = ParsePlanSummary(s)
		}
		return out, nil
	}
}
