//go:build verif

package main

import (
	"encoding/base64"
	"encoding/json"
)

func init() {
	// crypto: a list of {op: enc|dec, key_b64, data_b64}; each answered with {ok, data_b64|err}.
	vHandlers["crypto"] = func(raw json.RawMessage) (any, error) {
		var a []struct {
			Op      string `json:"op"`
			KeyB64  string `json:"key_b64"`
			DataB64 string `json:"data_b64"`
		}
		if err := json.Unmarshal(raw, &a); err != nil {
			return nil, err
		}
		out := make([]map[string]any, len(a))
		for i, c := range a {
			key, _ := base64.StdEncoding.DecodeString(c.KeyB64)
			data, _ := base64.StdEncoding.DecodeString(c.DataB64)
			var res []byte
			var err error
			if c.Op == "enc" {
				res, err = Encrypt(data, key)
			} else {
				res, err = Decrypt(data, key)
			}
			if err != nil {
				out[i] = map[string]any{"ok": false, "err": err.Error()}
			} else {
				out[i] = map[string]any{"ok": true, "data_b64": base64.StdEncoding.EncodeToString(res)}
			}
		}
		return out, nil
	}

	// keyfile: {op: read|write|generate|exists, path, key_b64}
	vHandlers["keyfile"] = func(raw json.RawMessage) (any, error) {
		var a []struct {
			Op     string `json:"op"`
			Path   string `json:"path"`
			KeyB64 string `json:"key_b64"`
		}
		if err := json.Unmarshal(raw, &a); err != nil {
			return nil, err
		}
		out := make([]map[string]any, len(a))
		for i, c := range a {
			switch c.Op {
			case "read":
				k, err := ReadKeyFromFile(c.Path)
				if err != nil {
					out[i] = map[string]any{"ok": false, "err": err.Error()}
				} else {
					out[i] = map[string]any{"ok": true, "key_b64": base64.StdEncoding.EncodeToString(k)}
				}
			case "write":
				k, _ := base64.StdEncoding.DecodeString(c.KeyB64)
				err := WriteKeyToFile(c.Path, k)
				if err != nil {
					out[i] = map[string]any{"ok": false, "err": err.Error()}
				} else {
					out[i] = map[string]any{"ok": true}
				}
			case "generate":
				k, err := GenerateKey()
				if err != nil {
					out[i] = map[string]any{"ok": false, "err": err.Error()}
				} else {
					out[i] = map[string]any{"ok": true, "key_b64": base64.StdEncoding.EncodeToString(k)}
				}
			case "exists":
				out[i] = map[string]any{"ok": true, "exists": FileExists(c.Path)}
			}
		}
		return out, nil
	}
}
