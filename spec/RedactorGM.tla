----------------------------- MODULE RedactorGM ------------------------------
(***************************************************************************)
(* Grammar-mode generator: walks MongoGrammar top-down, in lock-step       *)
(* building one path through a command document.  Every array on the path  *)
(* gets labelled sibling elements before and after the path, every         *)
(* document the companions its nonterminal names (path next to a search    *)
(* query, as next to $lookup ...) and a labelled user field next to the    *)
(* path, so that "first element only", "last key only" and sibling-        *)
(* dependent code is exercised.  Every state whose last nonterminal admits *)
(* a scalar is a complete log line and is emitted with the labels, which   *)
(* the judge uses as the oracle for the positions the properties speak     *)
(* about.                                                                  *)
(* Invariants (checked by TLC on the specification itself): see the end.   *)
(***************************************************************************)
EXTENDS RedactorEnv, MongoGrammar

VARIABLES slot, path, leaf, mode, chunk

CurNT == IF path = << >> THEN SlotNT[slot] ELSE path[Len(path)].nt

\* deviations: steps that use a key outside the representative set of their nonterminal
Deviations == Cardinality({ i \in 1..Len(path) : path[i].k \in AllKeys(path[i].p) /\ path[i].k \notin RepKeys(path[i].p) })
NFld == Cardinality({ i \in 1..Len(path) : path[i].k \in GMFields })
NArr == Cardinality({ i \in 1..Len(path) : path[i].k = "[]" })
KeysAt(nt) == IF Deviations < GMWide THEN AllKeys(nt) ELSE RepKeys(nt)

LabAt(nt, kind) == IF kind \in G[nt].fk THEN "free" ELSE G[nt].lab
\* a "$..." string is a field reference where the grammar expects an expression or a literal; in a position of
\* operational parameters it is just an odd parameter (label free)
GLeaf(nt, kind) == IF kind = "nsname" THEN NsName
                   ELSE IF kind = "dollar" /\ G[nt].lab # "user" THEN Str("dollar", "free")
                   ELSE Leaf(kind, LabAt(nt, kind))
LeafChoices(nt) == IF G[nt].kinds = {} THEN {"none"}
                   ELSE IF G[nt].kinds \cap GMKinds = {} THEN G[nt].kinds ELSE G[nt].kinds \cap GMKinds
\* paths are extended from one leaf choice only (the successors do not depend on the leaf)
CanonLeaf(nt) == CHOOSE k \in LeafChoices(nt) : TRUE

\* a representative scalar of a nonterminal (for siblings)
FirstKind(nt) == IF "plain" \in G[nt].kinds THEN "plain" ELSE CHOOSE k \in G[nt].kinds : TRUE
SibScalar(nt) == GLeaf(nt, FirstKind(nt))
\* sibling element of an array whose elements are of nonterminal nt
SibElems(nt) ==
  IF G[nt].kinds # {} THEN << SibScalar(nt) >>
  ELSE IF G[nt].f # None /\ G[G[nt].f].kinds # {} THEN << Obj(<< <<"ufs", SibScalar(G[nt].f)>> >>) >>
  ELSE << >>
\* companions of key k inside a document of nonterminal p
SibKeys(p, k) ==
  LET named == SelectSeq(G[p].sib, LAMBDA e : e[1] # k)
      comp  == [i \in 1..Len(named) |-> <<named[i][1], Leaf(named[i][2], named[i][3])>>]
      fld   == IF G[p].f # None /\ G[G[p].f].kinds # {} /\ k # "ufs" THEN << <<"ufs", SibScalar(G[p].f)>> >> ELSE << >>
  IN comp \o fld

RECURSIVE BuildG(_, _)
BuildG(i, l) ==
  IF i > Len(path) THEN l
  ELSE LET st == path[i] IN
       IF st.k = "[]"
       THEN Arr(SibElems(st.nt) \o << BuildG(i + 1, l) >> \o SibElems(st.nt))
       ELSE Obj(<< <<st.k, BuildG(i + 1, l)>> >> \o SibKeys(st.p, st.k))

SlotValue == BuildG(1, GLeaf(CurNT, leaf))
CaseLine == Line(DefaultEnv, Cmd(VerbFor(slot), slot, SlotValue))

Extend(k, child) == /\ path' = Append(path, [k |-> k, p |-> CurNT, nt |-> child])
                    /\ leaf' \in LeafChoices(child)

GSlots == IF GMSlots = {} THEN DOMAIN SlotNT ELSE GMSlots

\* Seeds: key paths proposed from outside (lib/l3.py computes, by breadth-first search over the grammar's edge
\* list, one shortest path through every (nonterminal, key) edge).  They are resolved - and thereby validated -
\* against G here; a seed that the grammar does not derive resolves to a path ending in "bad" and is dropped.
RECURSIVE Resolve(_, _, _)
Resolve(nt, keys, i) ==
  IF i > Len(keys) THEN << >>
  ELSE LET k == keys[i]
           child == IF k = "[]" THEN G[nt].a
                    ELSE IF k \in AllKeys(nt) THEN G[nt].k[k]
                    ELSE IF k \in GMFields THEN G[nt].f
                    ELSE None
       IN IF child = None THEN << [k |-> k, p |-> nt, nt |-> "bad"] >>
          ELSE << [k |-> k, p |-> nt, nt |-> child] >> \o Resolve(child, keys, i + 1)
SeedPath(s) == Resolve(SlotNT[s[1]], s[2], 1)
GoodSeeds(S) == { s \in S : LET p == SeedPath(s) IN p # << >> /\ p[Len(p)].nt # "bad" /\ G[p[Len(p)].nt].kinds # {} }

\* GMSeeds is a sequence of chunks (sets of seeds): one initial state per chunk, expanded in parallel by TLC's workers
Init == \/ slot \in GSlots /\ path = << >> /\ leaf = "none" /\ mode = "walk" /\ chunk = 0
        \/ \E c \in 1..Len(GMSeeds) : slot = "filter" /\ path = << >> /\ leaf = "none" /\ mode = "chunk" /\ chunk = c
SeedStep == /\ mode = "chunk"
            /\ \E s \in GoodSeeds(GMSeeds[chunk]) :
                 /\ slot' = s[1] /\ path' = SeedPath(s) /\ mode' = "seed" /\ chunk' = chunk
                 /\ leaf' \in LeafChoices(SeedPath(s)[Len(SeedPath(s))].nt)
\* Bounds: total depth; at most GMTail steps after the last allowed deviation; slots that share their
\* nonterminal with a canonical slot (query, q ~ filter; u ~ update) only to depth GMShallow - that every slot is
\* dispatched at all is the business of RedactorEW.
DevIdx == { i \in 1..Len(path) : path[i].k \in AllKeys(path[i].p) /\ path[i].k \notin RepKeys(path[i].p) }
LastDev == IF DevIdx = {} THEN 0 ELSE CHOOSE i \in DevIdx : \A j \in DevIdx : j <= i
Walk == /\ mode = "walk" /\ UNCHANGED <<mode, chunk>>
        /\ Len(path) < GMDepth
        /\ (Deviations < GMWide \/ GMWide = 0 \/ Len(path) - LastDev < GMTail)      \* (GMWide = 0: representative keys only, no tail rule)
        /\ (slot \in {"query", "q", "u", "arrayFilters", "c"} => Len(path) < GMShallow)
        /\ leaf = CanonLeaf(CurNT)
        /\ UNCHANGED slot
        /\ \/ \E k \in KeysAt(CurNT) : Extend(k, G[CurNT].k[k])
           \* (fields in GMBelow - user fields spelled like words of the operator tables - are only tried directly below the matching name)
           \/ (G[CurNT].f # None /\ NFld < GMMaxFld /\ \E uf \in GMFields :
                  /\ (uf \in GMBelow => Len(path) > 0 /\ path[Len(path)].k = "zzsecretA")
                  /\ Extend(uf, G[CurNT].f))
           \/ (G[CurNT].a # None /\ NArr < GMMaxArr /\ Extend("[]", G[CurNT].a))

Next == Walk \/ SeedStep

Complete == leaf # "none"
EmitInv == Complete => EmitCaseM("gm", CaseLine, [i \in 1..Len(path) |-> <<path[i].p, path[i].k>>])

(***************************************************************************)
(* Design-level invariants: the specification of the walkers against the   *)
(* grammar's labels, for every flag set in Cfgs that is in full-redaction  *)
(* mode.  (They speak about the specification; the code is judged by the    *)
(* replay.)  TargetOutcome = the outcome of the leaf at the end of path.    *)
(***************************************************************************)
RECURSIVE OutAt(_, _)
\* follow the path through an output tree (arrays: the path element is the one after the leading siblings)
OutAt(v, i) ==
  IF i > Len(path) THEN v
  ELSE LET st == path[i] IN
       IF st.k = "[]" THEN OutAt(v.it[Len(SibElems(st.nt)) + 1], i + 1)
       ELSE OutAt(v.kv[1][2], i + 1)
TargetOut(c) ==
  LET out  == RedactMongoLog(c, CaseLine)
      attr == GetKey(out, "attr")
      cmd  == GetKey(attr, "command")
  IN OutAt(GetKey(cmd, slot), 1)

UserLeaf == Complete /\ GLeaf(CurNT, leaf).lab = "user"
\* C01 at the level of the design: a user literal is never kept in full-redaction mode
NoUserLiteralSurvives ==
  UserLeaf => \A n \in DOMAIN Cfgs :
     LET c == Cfgs[n] o == TargetOut(c).o t == GLeaf(CurNT, leaf).t IN
       ~c.re => CASE t = "str"  -> o # "keep" \/ leaf = "empty"
                  [] t = "num"  -> c.num => o # "keep"
                  [] t = "bool" -> c.bool => o # "keep"
                  [] OTHER      -> TRUE
\* C04 at the level of the design: kept positions stay
KeepLeaf == Complete /\ GLeaf(CurNT, leaf).lab = "keep"
KeptPositionsKept == KeepLeaf => \A n \in DOMAIN Cfgs : TargetOut(Cfgs[n]).o = "keep"
IdemInv == Complete => IdempotentAll(CaseLine)
=============================================================================
