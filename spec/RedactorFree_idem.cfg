INIT Init
NEXT Next
INVARIANT EmitInv
INVARIANT IdemInv
CHECK_DEADLOCK FALSE
