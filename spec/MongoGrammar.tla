---------------------------- MODULE MongoGrammar -----------------------------
(***************************************************************************)
(* The ENVIRONMENT of the redactor: a top-down tree grammar of what a      *)
(* client can put into the query-bearing parts of a MongoDB command - find *)
(* / count / delete filters, update documents (operators, replacement,     *)
(* pipeline form), inserted documents, aggregation pipelines with every    *)
(* stage, sub-pipelines, expressions, Atlas Search / vectorSearch /        *)
(* rankFusion stages and the extended-JSON literal wrappers.               *)
(*                                                                         *)
(* It is written from the MongoDB manual and from the property statements, *)
(* NOT from src/operators.go: every leaf position carries the label the    *)
(* statements give it:                                                     *)
(*   user    a literal the client supplied (C01 must vanish, C05 class     *)
(*           placeholder, C02 must not influence the output, C14)          *)
(*   ref     a "$field" / "$$var" reference (any "$..." string)            *)
(*   keep    $limit / $skip argument, any pipeline depth (C04)             *)
(*   keepTop $sample.size, search index name, numCandidates, limit - kept  *)
(*           in top-level stages only (C04)                                *)
(*   ns      a collection / database name (C12)                            *)
(*   free    operational parameters the statements leave open (enumerated  *)
(*           keywords, output-field names, scores, flags, BSON subtype...) *)
(* The operator tables of the implementation are its answer to the same    *)
(* question; TLC compares the two over the bounded space (RedactorGM) and   *)
(* the replay compares the real code with the labels.                      *)
(*                                                                         *)
(* A nonterminal is a record                                               *)
(*   k     : function  key -> nonterminal of the value under that key      *)
(*   f     : nonterminal under an arbitrary user field name, or "none"     *)
(*   a     : nonterminal of array elements, or "none"                      *)
(*   kinds : scalar leaf kinds allowed here                                *)
(*   lab   : label of those scalars ("$..." strings are always ref)        *)
(*   fk    : kinds whose label is free although lab says otherwise         *)
(*   sib   : entries <<key, kind, label>> that normally accompany any key  *)
(*           of this document (added after it by the generator)            *)
(***************************************************************************)
EXTENDS Naturals, TLC, Sequences, FiniteSets

None == "none"
AllScal == {"plain", "email", "empty", "num", "bool", "null", "dollar"}
UserStr == {"plain", "email", "empty"}
Map(keys, nt) == [x \in keys |-> nt]

NT(k, f, a, kinds, lab) == [k |-> k, f |-> f, a |-> a, kinds |-> kinds, lab |-> lab, fk |-> {}, sib |-> << >>]
Scal(kinds, lab)        == NT(<< >>, None, None, kinds, lab)
Doc(k)                  == NT(k, None, None, {}, "free")
WithSib(nt, sib)        == [nt EXCEPT !.sib = sib]
WithFk(nt, fk)          == [nt EXCEPT !.fk = fk]

\* ---- extended JSON ------------------------------------------------------
XJson == ("$date" :> "XDate") @@ ("$oid" :> "XOid") @@ ("$binary" :> "XBin") @@ ("$numberLong" :> "SUser") @@
         ("$numberDecimal" :> "SUser") @@ ("$numberInt" :> "SUser") @@ ("$numberDouble" :> "SUser") @@
         ("$uuid" :> "SUser") @@ ("$timestamp" :> "XTs") @@ ("$regularExpression" :> "XRe") @@
         ("$minKey" :> "Free") @@ ("$maxKey" :> "Free") @@ ("$symbol" :> "SUser") @@ ("$code" :> "SUser")

\* ---- query operators ------------------------------------------------------
QueryOps == Map({"$eq", "$ne", "$gt", "$gte", "$lt", "$lte"}, "L") @@ Map({"$in", "$nin", "$all"}, "LArr") @@
            ("$not" :> "QV") @@ ("$elemMatch" :> "QEM") @@ ("$exists" :> "Free") @@ ("$type" :> "Free") @@
            ("$regex" :> "SUser") @@ ("$options" :> "Free") @@ ("$size" :> "NUser") @@ ("$mod" :> "NArr") @@
            Map({"$bitsAllSet", "$bitsAnySet", "$bitsAllClear", "$bitsAnyClear"}, "NUserOrArr") @@
            Map({"$geoWithin", "$geoIntersects", "$near", "$nearSphere"}, "Geo") @@
            Map({"$maxDistance", "$minDistance"}, "NUser")
LogicalOps == Map({"$and", "$or", "$nor"}, "QArr") @@ ("$expr" :> "E") @@ ("$where" :> "SUser") @@
              ("$text" :> "QText") @@ ("$jsonSchema" :> "Free") @@ ("$comment" :> "SUser")

\* ---- expression operators -------------------------------------------------
ExprOps == {"$abs", "$add", "$ceil", "$divide", "$exp", "$floor", "$ln", "$log", "$log10", "$multiply", "$pow", "$round",
            "$sqrt", "$subtract", "$trunc", "$mod", "$arrayElemAt", "$arrayToObject", "$concatArrays", "$firstN", "$indexOfArray",
            "$isArray", "$lastN", "$maxN", "$minN", "$objectToArray", "$range", "$reverseArray", "$sortArray", "$zip", "$size",
            "$slice", "$in", "$cmp", "$eq", "$ne", "$gt", "$gte", "$lt", "$lte", "$and", "$or", "$not", "$concat", "$toString",
            "$toLower", "$toUpper", "$trim", "$split", "$substr", "$substrCP", "$strLenCP", "$strcasecmp", "$indexOfCP",
            "$replaceOne", "$replaceAll", "$ifNull", "$mergeObjects", "$setField", "$setUnion", "$setIntersection",
            "$setDifference", "$setEquals", "$setIsSubset", "$anyElementTrue", "$allElementsTrue", "$sum", "$avg", "$min",
            "$max", "$first", "$last", "$push", "$addToSet", "$stdDevPop", "$toInt", "$toLong", "$toDouble", "$toDecimal",
            "$toDate", "$toObjectId", "$toBool", "$type", "$year", "$month", "$dayOfMonth", "$hour", "$minute", "$second",
            "$dayOfWeek", "$isNumber", "$rand", "$bitAnd", "$bitOr", "$tsSecond", "$binarySize", "$bsonSize", "$exists"}
ExprK == Map(ExprOps, "E") @@ ("$literal" :> "L") @@ ("$const" :> "L") @@ ("$cond" :> "ECond") @@ ("$let" :> "ELet") @@
         Map({"$map", "$filter", "$reduce"}, "EMap") @@
         Map({"$dateToString", "$dateFromString", "$dateTrunc", "$dateAdd", "$dateSubtract", "$dateDiff", "$dateFromParts", "$dateToParts"}, "EDate") @@
         ("$convert" :> "EConv") @@ Map({"$regexMatch", "$regexFind", "$regexFindAll"}, "ERegex") @@
         ("$switch" :> "ESwitch") @@ ("$getField" :> "EGetF") @@ ("$meta" :> "Free") @@ ("$function" :> "EFunc")
AccOps == {"$sum", "$avg", "$min", "$max", "$first", "$last", "$push", "$addToSet", "$count", "$mergeObjects", "$stdDevPop",
           "$stdDevSamp", "$accumulator"}
AccNOps == {"$topN", "$bottomN", "$firstN", "$lastN", "$maxN", "$minN", "$top", "$bottom"}

\* ---- Atlas Search operators -------------------------------------------------
SearchOpsK == Map({"text", "phrase", "autocomplete", "regex", "wildcard"}, "STextLike") @@ ("equals" :> "SEquals") @@
              ("in" :> "SIn") @@ ("range" :> "SRange") @@ ("near" :> "SNear") @@ ("queryString" :> "SQS") @@
              ("moreLikeThis" :> "SMLT") @@ ("exists" :> "SExists") @@ Map({"geoShape", "geoWithin"}, "SGeo") @@
              ("compound" :> "SCompound") @@ ("embeddedDocument" :> "SEmb") @@ ("span" :> "SSpan")
PathSib == << <<"path", "plain", "free">> >>

G ==
  [ \* ------------------------------------------------ command slots
    Q       |-> NT(LogicalOps, "QV", None, {}, "free"),
    QArr    |-> NT(<< >>, None, "Q", {}, "free"),
    QV      |-> NT(QueryOps @@ XJson, "L", "L", AllScal, "user"),
    QEM     |-> NT(QueryOps @@ LogicalOps, "QV", None, {}, "free"),
    QText   |-> Doc(("$search" :> "SUser") @@ ("$language" :> "Free") @@ ("$caseSensitive" :> "Free") @@ ("$diacriticSensitive" :> "Free")),
    L       |-> NT(XJson, "L", "L", AllScal, "user"),
    LArr    |-> NT(<< >>, None, "L", {}, "free"),
    XDate   |-> NT(("$numberLong" :> "SUser"), None, None, {"date"}, "user"),
    XOid    |-> Scal({"oid"}, "user"),
    XBin    |-> Doc(("base64" :> "XB64") @@ ("subType" :> "SubType")),
    XB64    |-> Scal({"b64"}, "user"),
    SubType |-> Scal({"plain"}, "subtype"),
    XTs     |-> Doc(("t" :> "NUser") @@ ("i" :> "NUser")),
    XRe     |-> Doc(("pattern" :> "SUser") @@ ("options" :> "Free")),
    SUser   |-> Scal(UserStr, "user"),
    NUser   |-> Scal({"num"}, "user"),
    NArr    |-> NT(<< >>, None, "NUser", {}, "free"),
    NUserOrArr |-> NT(<< >>, None, "NUser", {"num"}, "user"),
    NArrN   |-> NT(<< >>, None, "NArrN", {"num"}, "user"),
    Free    |-> NT(<< >>, "FreeLeaf", "FreeLeaf", AllScal, "free"),
    FreeLeaf |-> Scal(AllScal, "free"),
    Sort    |-> NT(<< >>, "SortV", None, {}, "free"),
    SortV   |-> NT(("$meta" :> "Free"), None, None, {"num"}, "free"),
    \* ------------------------------------------------ updates
    UP      |-> NT(Map({"$set", "$setOnInsert", "$min", "$max", "$inc", "$mul"}, "UF") @@ Map({"$addToSet", "$push"}, "UFArr") @@
                   ("$pull" :> "UFPull") @@ ("$pullAll" :> "UFAll") @@ Map({"$unset", "$rename", "$currentDate", "$pop"}, "UFFree") @@
                   ("$bit" :> "UFBit"), "L", "Stage", {}, "free"),
    UF      |-> NT(<< >>, "L", None, {}, "free"),
    UFArr   |-> NT(<< >>, "UVArr", None, {}, "free"),
    UVArr   |-> NT(XJson @@ ("$each" :> "LArr") @@ ("$position" :> "Free") @@ ("$slice" :> "Free") @@ ("$sort" :> "Free"), "L", "L", AllScal, "user"),
    UFPull  |-> NT(<< >>, "QV", None, {}, "free"),
    UFAll   |-> NT(<< >>, "LArr", None, {}, "free"),
    UFFree  |-> NT(<< >>, "Free", None, {}, "free"),
    UFBit   |-> NT(<< >>, "Bit", None, {}, "free"),
    Bit     |-> Doc(Map({"and", "or", "xor"}, "NUser")),
    UpdArr  |-> NT(<< >>, None, "UpdStmt", {}, "free"),
    \* one update statement {q, u, c, arrayFilters, ...}: "c" holds the constants of a pipeline-style update (name -> literal)
    UpdStmt |-> Doc(("q" :> "Q") @@ ("u" :> "UP") @@ ("arrayFilters" :> "QArr") @@ ("c" :> "UF") @@ Map({"multi", "upsert", "hint", "collation"}, "Free")),
    DelArr  |-> NT(<< >>, None, "DelStmt", {}, "free"),
    DelStmt |-> Doc(("q" :> "Q") @@ Map({"limit", "hint", "collation"}, "Free")),
    DocArr  |-> NT(<< >>, None, "L", {}, "free"),
    \* ------------------------------------------------ pipelines
    PArr    |-> NT(<< >>, None, "Stage", {}, "free"),
    Stage   |-> Doc(("$match" :> "Q") @@ ("$project" :> "Proj") @@ Map({"$addFields", "$set"}, "EDoc") @@ ("$unset" :> "Free") @@
                    ("$group" :> "Grp") @@ ("$sort" :> "Sort") @@ Map({"$limit", "$skip"}, "Keep") @@ ("$sample" :> "Sample") @@
                    ("$count" :> "Free") @@ ("$unwind" :> "Unwind") @@ ("$lookup" :> "Lookup") @@ ("$graphLookup" :> "GLookup") @@
                    ("$unionWith" :> "UnionW") @@ ("$merge" :> "Merge") @@ ("$out" :> "Out") @@ ("$facet" :> "Facet") @@
                    ("$bucket" :> "Bucket") @@ ("$bucketAuto" :> "BucketA") @@ ("$replaceRoot" :> "ReplRoot") @@
                    Map({"$replaceWith", "$redact"}, "E") @@ ("$sortByCount" :> "EObj") @@ ("$geoNear" :> "GeoNear") @@ ("$densify" :> "Densify") @@
                    ("$fill" :> "Fill") @@ ("$setWindowFields" :> "SWF") @@ ("$documents" :> "EArr") @@
                    Map({"$search", "$searchMeta"}, "Search") @@ ("$vectorSearch" :> "VSearch") @@ ("$rankFusion" :> "RankF") @@
                    Map({"$changeStream", "$collStats", "$indexStats", "$currentOp", "$listSessions", "$planCacheStats"}, "Free")),
    Proj    |-> NT(<< >>, "ProjV", None, {}, "free"),
    ProjV   |-> WithFk(NT(ExprK, "E", "E", AllScal, "user"), {"num", "bool"}),
    EDoc    |-> NT(<< >>, "E", None, {}, "free"),
    EArr    |-> NT(<< >>, None, "E", {}, "free"),
    E       |-> NT(ExprK, "E", "E", AllScal, "user"),
    \* an expression that must yield a document or a key to group by: a "$field" reference or an expression
    \* document, never a bare literal (the server rejects it)
    EObj    |-> NT(ExprK, "E", "E", {"dollar"}, "user"),
    ECond   |-> NT(Map({"if", "then", "else"}, "E"), None, "E", {}, "free"),
    ELet    |-> Doc(("vars" :> "EDoc") @@ ("in" :> "E")),
    EMap    |-> WithSib(Doc(Map({"input", "in", "cond", "initialValue", "limit"}, "E") @@ ("as" :> "Free")), << <<"as", "plain", "free">> >>),
    EDate   |-> Doc(Map({"date", "startDate", "endDate", "dateString", "onNull", "onError", "amount", "year", "month", "day"}, "E") @@
                    Map({"format", "timezone", "unit", "startOfWeek", "binSize"}, "Free")),
    EConv   |-> Doc(Map({"input", "onError", "onNull"}, "E") @@ ("to" :> "Free")),
    ERegex  |-> Doc(Map({"input", "regex"}, "E") @@ ("options" :> "Free")),
    ESwitch |-> Doc(("branches" :> "ESwArr") @@ ("default" :> "E")),
    ESwArr  |-> NT(<< >>, None, "ESwB", {}, "free"),
    ESwB    |-> Doc(Map({"case", "then"}, "E")),
    EGetF   |-> Doc(("field" :> "Free") @@ ("input" :> "E")),
    EFunc   |-> Doc(("body" :> "SUser") @@ ("args" :> "EArr") @@ ("lang" :> "Free")),
    Grp     |-> NT(("_id" :> "E"), "Acc", None, {}, "free"),
    GrpOut  |-> NT(<< >>, "Acc", None, {}, "free"),
    Acc     |-> Doc(Map(AccOps \ {"$count"}, "E") @@ ("$count" :> "Free") @@ Map(AccNOps, "AccN")),
    AccN    |-> Doc(("n" :> "Free") @@ Map({"input", "output"}, "E") @@ ("sortBy" :> "Sort")),
    Keep    |-> Scal({"num"}, "keep"),
    KeepTopN |-> Scal({"num"}, "keepTop"),
    KeepTopS |-> Scal({"plain"}, "keepTop"),
    Sample  |-> Doc(("size" :> "KeepTopN")),
    Unwind  |-> NT(("path" :> "Free") @@ ("includeArrayIndex" :> "Free") @@ ("preserveNullAndEmptyArrays" :> "Free"), None, None, {"dollar"}, "free"),
    NsS     |-> Scal({"nsname"}, "ns"),
    Lookup  |-> WithSib(Doc(("from" :> "NsS") @@ Map({"localField", "foreignField", "as"}, "Free") @@ ("let" :> "EDoc") @@ ("pipeline" :> "PArr")),
                        << <<"as", "plain", "free">> >>),
    GLookup |-> Doc(("from" :> "NsS") @@ ("startWith" :> "E") @@ Map({"connectFromField", "connectToField", "as", "depthField", "maxDepth"}, "Free") @@
                    ("restrictSearchWithMatch" :> "Q")),
    UnionW  |-> NT(("coll" :> "NsS") @@ ("pipeline" :> "PArr"), None, None, {"nsname"}, "ns"),
    Merge   |-> NT(("into" :> "MergeInto") @@ ("on" :> "Free") @@ ("let" :> "EDoc") @@ ("whenMatched" :> "WhenM") @@ ("whenNotMatched" :> "Free"),
                   None, None, {"nsname"}, "ns"),
    MergeInto |-> NT(Map({"db", "coll"}, "NsS"), None, None, {"nsname"}, "ns"),
    WhenM   |-> NT(<< >>, None, "Stage", {"plain"}, "free"),
    Out     |-> NT(Map({"db", "coll"}, "NsS") @@ ("timeseries" :> "Free"), None, None, {"nsname"}, "ns"),
    Facet   |-> NT(<< >>, "PArr", None, {}, "free"),
    Bucket  |-> Doc(("groupBy" :> "EObj") @@ ("boundaries" :> "LArr") @@ ("default" :> "L") @@ ("output" :> "GrpOut")),
    BucketA |-> Doc(("groupBy" :> "EObj") @@ Map({"buckets", "granularity"}, "Free") @@ ("output" :> "GrpOut")),
    ReplRoot |-> Doc(("newRoot" :> "EObj")),
    GeoNear |-> Doc(("near" :> "Geo") @@ Map({"distanceField", "includeLocs", "key", "spherical", "distanceMultiplier"}, "Free") @@
                    Map({"maxDistance", "minDistance"}, "NUser") @@ ("query" :> "Q")),
    Densify |-> Doc(Map({"field", "partitionByFields"}, "Free") @@ ("range" :> "DRange")),
    DRange  |-> Doc(Map({"step", "unit"}, "Free") @@ ("bounds" :> "DBounds")),
    DBounds |-> NT(<< >>, None, "L", {"plain"}, "free"),
    Fill    |-> Doc(("partitionBy" :> "E") @@ ("partitionByFields" :> "Free") @@ ("sortBy" :> "Sort") @@ ("output" :> "FillOut")),
    FillOut |-> NT(<< >>, "FillF", None, {}, "free"),
    FillF   |-> Doc(("value" :> "E") @@ ("method" :> "Free")),
    SWF     |-> Doc(("partitionBy" :> "E") @@ ("sortBy" :> "Sort") @@ ("output" :> "SWFOut")),
    SWFOut  |-> NT(<< >>, "SWFAcc", None, {}, "free"),
    SWFAcc  |-> Doc(Map(AccOps \ {"$count"}, "E") @@ ("$count" :> "Free") @@ ("window" :> "Free")),
    Geo     |-> NT(("type" :> "Free") @@ ("coordinates" :> "NArrN") @@ ("$geometry" :> "Geo") @@
                   Map({"$centerSphere", "$center", "$box", "$polygon"}, "NArrN") @@ Map({"$maxDistance", "$minDistance"}, "NUser") @@
                   ("crs" :> "Free"), None, "NUserOrArr", {}, "free"),
    \* ------------------------------------------------ Atlas Search
    Search  |-> Doc(("index" :> "KeepTopS") @@ SearchOpsK @@ ("facet" :> "SFacet") @@
                    Map({"highlight", "count", "sort", "tracking", "returnStoredSource", "scoreDetails", "concurrent", "searchAfter", "searchBefore"}, "Free")),
    SOp     |-> Doc(SearchOpsK),
    SOpArr  |-> NT(<< >>, None, "SOp", {}, "free"),
    STextLike |-> WithSib(Doc(("query" :> "SQuery") @@ Map({"path", "fuzzy", "score", "synonyms", "matchCriteria", "slop", "tokenOrder", "allowAnalyzedField"}, "Free")), PathSib),
    SQuery  |-> NT(<< >>, None, "SUser", UserStr, "user"),
    SEquals |-> WithSib(Doc(("value" :> "L") @@ Map({"path", "score"}, "Free")), PathSib),
    SIn     |-> WithSib(Doc(("value" :> "L") @@ Map({"path", "score"}, "Free")), PathSib),
    SRange  |-> WithSib(Doc(Map({"gt", "gte", "lt", "lte"}, "L") @@ Map({"path", "score"}, "Free")), PathSib),
    SNear   |-> WithSib(Doc(("origin" :> "L") @@ Map({"path", "pivot", "score"}, "Free")), PathSib),
    SQS     |-> Doc(("defaultPath" :> "Free") @@ ("query" :> "SUser")),
    SMLT    |-> Doc(("like" :> "L") @@ ("score" :> "Free")),
    SExists |-> Doc(Map({"path", "score"}, "Free")),
    SGeo    |-> WithSib(Doc(Map({"path", "relation", "score"}, "Free") @@ ("geometry" :> "Geo") @@ ("box" :> "SBox") @@ ("circle" :> "SCircle")), PathSib),
    SBox    |-> Doc(Map({"bottomLeft", "topRight"}, "Geo")),
    SCircle |-> Doc(("center" :> "Geo") @@ ("radius" :> "Free")),
    SCompound |-> Doc(Map({"must", "mustNot", "should", "filter"}, "SOpArr") @@ Map({"minimumShouldMatch", "score"}, "Free")),
    SEmb    |-> WithSib(Doc(("operator" :> "SOp") @@ Map({"path", "score"}, "Free")), PathSib),
    SFacet  |-> Doc(("operator" :> "SOp") @@ ("facets" :> "SFacets")),
    SFacets |-> NT(<< >>, "SFacetDef", None, {}, "free"),
    SFacetDef |-> Doc(Map({"type", "path", "numBuckets", "boundaries", "default"}, "Free")),
    SSpan   |-> Doc(("term" :> "STextLike") @@ ("first" :> "SSpanFirst") @@ ("near" :> "SSpanCl") @@ ("or" :> "SSpanCl") @@
                    ("subtract" :> "SSpanSub") @@ ("contains" :> "SSpanCont")),
    SSpanFirst |-> Doc(("operator" :> "SSpan") @@ Map({"endPositionLte", "score"}, "Free")),
    SSpanCl |-> Doc(("clauses" :> "SSpanArr") @@ Map({"slop", "inOrder", "score"}, "Free")),
    SSpanArr |-> NT(<< >>, None, "SSpan", {}, "free"),
    SSpanSub |-> Doc(Map({"include", "exclude"}, "SSpan") @@ ("score" :> "Free")),
    SSpanCont |-> Doc(Map({"little", "big"}, "SSpan") @@ Map({"spanToReturn", "score"}, "Free")),
    VSearch |-> WithSib(Doc(("index" :> "KeepTopS") @@ ("path" :> "Free") @@ ("queryVector" :> "NArr") @@ Map({"numCandidates", "limit"}, "KeepTopN") @@
                            ("filter" :> "Q") @@ ("exact" :> "Free")), PathSib),
    RankF   |-> Doc(("input" :> "RFIn") @@ Map({"combination", "scoreDetails"}, "Free")),
    RFIn    |-> Doc(("pipelines" :> "RFPipes")),
    RFPipes |-> NT(<< >>, "PArr", None, {}, "free") ]

\* the command-level slots and the nonterminal of their value
\* arrayFilters and c belong to the update specification wherever it is spelled at command level: findAndModify carries
\* arrayFilters next to query / update, and the WRITE log line of one update statement is {q, u, c, arrayFilters, multi, upsert}
SlotNT == [filter |-> "Q", query |-> "Q", q |-> "Q", sort |-> "Sort", update |-> "UP", u |-> "UP",
           updates |-> "UpdArr", deletes |-> "DelArr", documents |-> "DocArr", pipeline |-> "PArr",
           arrayFilters |-> "QArr", c |-> "UF"]

\* Representative keys.  The generator explores the full key set of a nonterminal only as a bounded number of
\* "deviations" per path (GMWide); all other steps use these small sets.  The number of cases then grows
\* polynomially with the depth instead of exponentially, while every (nonterminal, key) edge is still reached
\* from every representative context.  Nonterminals not listed (the narrow ones): all their keys.
Rep == [Q |-> {"$and", "$expr"}, QV |-> {"$in", "$elemMatch", "$date"}, QEM |-> {"$gt"}, L |-> {"$oid"},
        UP |-> {"$set", "$push"}, UVArr |-> {"$each"},
        Stage |-> {"$match", "$set", "$group", "$lookup", "$facet", "$search", "$replaceRoot"},
        E |-> {"$add", "$concat"}, EObj |-> {"$mergeObjects"}, ProjV |-> {"$concat"},
        Acc |-> {"$push"}, SWFAcc |-> {"$sum"}, Geo |-> {"coordinates"},
        Search |-> {"text", "compound", "embeddedDocument", "facet"}, SOp |-> {"text", "compound", "equals"},
        STextLike |-> {"query"}, VSearch |-> {"filter", "queryVector"}]
AllKeys(nt) == DOMAIN G[nt].k
RepKeys(nt) == IF nt \in DOMAIN Rep THEN Rep[nt] \cap AllKeys(nt) ELSE AllKeys(nt)

\* every (nonterminal, key, child) edge - printed once by GrammarDump for the coverage accounting of the checks
Edges == UNION { { <<nt, k, G[nt].k[k]>> : k \in AllKeys(nt) } : nt \in DOMAIN G }
=============================================================================
