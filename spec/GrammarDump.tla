----------------------------- MODULE GrammarDump -----------------------------
\* Prints the edge list of MongoGrammar once (coverage accounting of the grammar-mode checks).
EXTENDS MongoGrammar, Json, SequencesExt
VARIABLE x
Links == { <<nt, G[nt].f, G[nt].a, Cardinality(G[nt].kinds)>> : nt \in DOMAIN G }
Init == x = 0 /\ PrintT(ToJson([edges |-> SetToSeq(Edges), links |-> SetToSeq(Links), slots |-> SlotNT]))
Next == FALSE /\ x' = x

=============================================================================
