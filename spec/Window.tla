------------------------------- MODULE Window --------------------------------
(***************************************************************************)
(* L2 - the download window of Atlas mode: the two option setters and      *)
(* GetStartAndEndDates (src/reader.go).  The function is not pure: when    *)
(* exactly one bound is set it WRITES the missing one into the option      *)
(* globals, so what a later call returns depends on the calls before it.   *)
(* State = the two globals, the clock, and the history of calls.  Times    *)
(* are small naturals; W stands for the seven days (defaultLogDuration).   *)
(* 0 means "not given" (the flag default).                                 *)
(***************************************************************************)
EXTENDS Naturals, Sequences

CONSTANTS W, Times, MaxSteps      \* Times: the values a flag can be given (non-zero naturals)
VARIABLES gs, ge,                 \* atlasLogStartDate, atlasLogEndDate
          now,                    \* the clock (never decreases)
          hist                    \* Seq of steps: [op, arg, res] - res = <<start, end>> for a call

vars == <<gs, ge, now, hist>>
NoRes == <<0, 0>>

CONSTANT Nows                     \* initial clock values (chosen apart from every value derivable from Times, so that a replay can tell
                                  \* a bound taken from the clock from one taken from the options)
Init == gs = 0 /\ ge = 0 /\ now \in Nows /\ hist = <<>>

SetStart(x) == /\ gs' = x /\ hist' = Append(hist, [op |-> "start", arg |-> x, res |-> NoRes]) /\ UNCHANGED <<ge, now>>
SetEnd(x)   == /\ ge' = x /\ hist' = Append(hist, [op |-> "end", arg |-> x, res |-> NoRes]) /\ UNCHANGED <<gs, now>>
Tick        == /\ now' = now + 1 /\ hist' = Append(hist, [op |-> "tick", arg |-> 0, res |-> NoRes]) /\ UNCHANGED <<gs, ge>>

\* GetStartAndEndDates, branch by branch
Call ==
  /\ IF gs = 0 /\ ge = 0
     THEN /\ hist' = Append(hist, [op |-> "call", arg |-> 0, res |-> <<now - W, now>>]) /\ UNCHANGED <<gs, ge>>
     ELSE LET s == IF gs = 0 THEN ge - W ELSE gs                 \* (written back into the global)
              e == IF ge = 0 THEN s + W ELSE ge
          IN /\ gs' = s /\ ge' = e
             /\ hist' = Append(hist, [op |-> "call", arg |-> 0, res |-> <<s, e>>])
  /\ UNCHANGED now

Next == /\ Len(hist) < MaxSteps
        /\ \/ \E x \in Times \cup {0} : SetStart(x) \/ SetEnd(x)
           \/ Tick \/ Call
Spec == Init /\ [][Next]_vars

-----------------------------------------------------------------------------
\* what the options say at step i (the last value each setter was given before i; 0 = never / reset)
RECURSIVE LastSet(_, _)
LastSet(op, i) == IF i = 0 THEN 0 ELSE IF hist[i].op = op THEN hist[i].arg ELSE LastSet(op, i - 1)
Calls == {i \in 1..Len(hist) : hist[i].op = "call"}
\* the clock at step i
RECURSIVE Ticks(_)
Ticks(i) == IF i = 0 THEN 0 ELSE Ticks(i - 1) + (IF hist[i].op = "tick" THEN 1 ELSE 0)
NowAt(i) == now - (Ticks(Len(hist)) - Ticks(i))

\* C16: a window given in full is passed on untouched, whatever was called before
GivenIsVerbatim == \A i \in Calls : LastSet("start", i) # 0 /\ LastSet("end", i) # 0 => hist[i].res = <<LastSet("start", i), LastSet("end", i)>>
\* C16: with neither bound given - and none left behind by an earlier call - the window is the last seven days up to now
DefaultIsLastWeek == \A i \in Calls : (\A j \in 1..i : hist[j].op \in {"call", "tick"}) => hist[i].res = <<NowAt(i) - W, NowAt(i)>>
\* a window derived from one bound spans seven days and contains that bound
OneBoundSpansWeek == \A i \in Calls : hist[i].res[2] = hist[i].res[1] + W \/ (LastSet("start", i) # 0 /\ LastSet("end", i) # 0)
                                       \/ (\E j \in Calls : j < i)
\* the deviation, named: after a call with exactly one bound given, the derived bound STAYS in the options - a later
\* call sees a "given" window even after the one real bound was re-set; the function is not a function of its options alone
Sticky == \E i, j \in Calls : i < j /\ hist[i].res # hist[j].res /\ LastSet("start", i) = LastSet("start", j) /\ LastSet("end", i) = LastSet("end", j)
           /\ Ticks(i) = Ticks(j)
\* ... but a single call per process (what main.go does) is a function of the two options and the clock
FirstCallIsPure == \A i \in Calls : (\A j \in Calls : j >= i) =>
     hist[i].res = (IF LastSet("start", i) = 0 /\ LastSet("end", i) = 0 THEN <<NowAt(i) - W, NowAt(i)>>
                    ELSE LET s == IF LastSet("start", i) = 0 THEN LastSet("end", i) - W ELSE LastSet("start", i)
                             e == IF LastSet("end", i) = 0 THEN s + W ELSE LastSet("end", i) IN <<s, e>>)
=============================================================================
