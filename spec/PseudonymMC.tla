----------------------------- MODULE PseudonymMC -----------------------------
EXTENDS Pseudonym, TLC, Json
Flat(s) == s
Rec == [calls |-> [i \in 1..Len(hist) |-> [name |-> hist[i].name, parts |-> Parts(hist[i].name)]]]
EmitInv == Len(hist) = MaxCalls => PrintT(ToJson(Rec))
=============================================================================
