SPECIFICATION Spec
CONSTANT Alphabet = {"a", "b", ".", "$"}
CONSTANT MaxLen = 3
CONSTANT MaxCalls = 2
INVARIANT ComponentWise
INVARIANT DollarIrrelevant
INVARIANT HistoryFree
INVARIANT Bijective
INVARIANT EmitInv
CHECK_DEADLOCK FALSE
