-------------------------------- MODULE Crypto --------------------------------
(***************************************************************************)
(* L4 + L2 - the encrypt / decrypt pipeline end to end:                     *)
(*   redact --encrypt : string leaf m at a sensitive position               *)
(*        -> redactString (the choke point) -> Encrypt(key, m)              *)
(*        -> base64 -> JSON string leaf of the output line                  *)
(*   decrypt <value>  : ReadKeyFromFile -> base64 decode -> Decrypt         *)
(*        -> "Raw value: " + plaintext, or an error and exit 1              *)
(* One action per stage.  The cipher is axiomatised as a deterministic      *)
(* AEAD: Enc(k, m) is a tagged value, Dec(k', c) gives m back exactly when  *)
(* c is the untouched Enc(k', m), and an error otherwise (these axioms are  *)
(* tested against the real Encrypt / Decrypt by the harness: every single-  *)
(* byte flip and truncation, wrong keys).  What the model decides is the    *)
(* system part: every stage of the decrypt path inverts the matching stage  *)
(* of the encrypt path, for every leaf class, position, key relation and    *)
(* alteration; a failure is an error, never a wrong plaintext.              *)
(***************************************************************************)
EXTENDS Naturals, Sequences, FiniteSets

Classes == {"ascii", "unicode", "empty", "emailLower", "emailMixed", "digits", "long", "b64like", "jsonlike", "control",
            "quotes", "spaces", "dollarInside", "date", "oid", "bindata", "bindataLoose", "percent", "priorCiphertext",
            "blockAligned", "ipLike"}
          \* blockAligned: byte length a multiple of the cipher's block size, ending in bytes that padding schemes use as markers;
          \* ipLike: spelled like a network address (the run also has --redactIPs switched on)
          \* percent: printf verbs in the text; priorCiphertext: the string is itself a ciphertext produced earlier under the same key
Slots == {"filterField", "inArray", "updateSet", "updatesPipeU", "documents", "match", "exprArray", "searchQuery", "famPipe",
          "origFilter", "cmdFilter", "deletesQ", "lookupSub"}
\* what the decrypt command finds at --decryptionKeyFile: the key the log was encrypted under (sameNL: followed by a newline), another
\* valid key, or no usable key at all (the key-file kinds of KeyFile.tla); decrypt only ever READS that path
KeyRels == {"same", "sameNL", "other", "absent", "empty", "short", "nonb64", "dir"}
GoodRels == {"same", "sameNL"}
NoKeyRels == {"absent", "empty", "short", "nonb64", "dir"}
Alterations == {"none", "flipFirst", "flipMiddle", "flipLast", "truncate1", "truncateHalf", "extend", "b64char", "b64pad", "empty", "notb64"}

VARIABLES scen,     \* [cls, slot, keyrel, alt]
          stage,    \* "input" | "redacted" | "handed" | "done"
          leaf,     \* what is at the leaf position of the line: the plaintext m, or base64 of a ciphertext value
          value,    \* the string handed to the decrypt command (leaf, possibly altered on the way)
          outcome,  \* "pending" | [ok |-> TRUE, text] | [ok |-> FALSE]
          dkfile    \* what is at the decryption key path (starts as scen.keyrel)

vars == <<scen, stage, leaf, value, outcome, dkfile>>

MsgText == "m"   \* the original string (abstract: its class is in scen.cls)
\* values are records throughout (TLC compares only like with like)
M == [b64 |-> FALSE, of |-> [ct |-> FALSE, key |-> "", msg |-> MsgText, intact |-> TRUE], wellformed |-> TRUE]
Pending == [ok |-> FALSE, text |-> "pending"]
Failed  == [ok |-> FALSE, text |-> "error"]
K1 == "k1"
K2 == "k2"

Enc(k, m) == [ct |-> TRUE, key |-> k, msg |-> m.of.msg, intact |-> TRUE]
Dec(k, c) == IF c.ct /\ c.intact /\ c.key = k THEN [ok |-> TRUE, text |-> c.msg] ELSE Failed
B64(x)    == [b64 |-> TRUE, of |-> x, wellformed |-> TRUE]
UnB64(s)  == [ok |-> s.b64 /\ s.wellformed, bytes |-> s.of]

\* an alteration anywhere in the ciphertext bytes (or in the text that carries them) destroys integrity or well-formedness
Alter(s, a) ==
  CASE a = "none" -> s
    [] a \in {"flipFirst", "flipMiddle", "flipLast", "truncate1", "truncateHalf", "extend", "b64char"} -> [s EXCEPT !.of = [@ EXCEPT !.intact = FALSE]]
    [] a = "empty" -> [s EXCEPT !.of = [@ EXCEPT !.intact = FALSE]]
    [] a \in {"b64pad", "notb64"} -> [s EXCEPT !.wellformed = FALSE]

Init == /\ scen \in [cls : Classes, slot : Slots, keyrel : KeyRels, alt : Alterations]
        /\ stage = "input" /\ leaf = M /\ value = M /\ outcome = Pending /\ dkfile = scen.keyrel

\* redact --encrypt: the leaf is replaced by base64(Enc(key in use, m))
Redact == /\ stage = "input" /\ leaf' = B64(Enc(K1, M)) /\ stage' = "redacted" /\ UNCHANGED <<scen, value, outcome, dkfile>>
\* somebody copies the string out of the log (and may damage it)
HandOver == /\ stage = "redacted" /\ value' = Alter(leaf, scen.alt) /\ stage' = "handed" /\ UNCHANGED <<scen, leaf, outcome, dkfile>>
\* decrypt <value> --decryptionKeyFile <key file>
DecryptCmd ==
  /\ stage = "handed"
  /\ LET k == IF dkfile \in GoodRels THEN K1 ELSE K2
         d == UnB64(value)
     IN outcome' = IF dkfile \in NoKeyRels THEN Failed              \* ReadKeyFromFile fails first: nothing is decoded, nothing is created
                   ELSE IF ~d.ok THEN Failed ELSE Dec(k, d.bytes)
  /\ stage' = "done" /\ UNCHANGED <<scen, leaf, value, dkfile>>

Next == Redact \/ HandOver \/ DecryptCmd
Spec == Init /\ [][Next]_vars /\ WF_vars(Next)

RoundTrip == stage = "done" /\ scen.keyrel \in GoodRels /\ scen.alt = "none" => outcome = [ok |-> TRUE, text |-> MsgText]
NeverWrongPlaintext == stage = "done" /\ (scen.keyrel \notin GoodRels \/ scen.alt # "none") => outcome = Failed
\* the decrypt command never creates, repairs or rewrites a key file
DecryptOnlyReads == dkfile = scen.keyrel
NoPlaintextInOutput == stage \in {"redacted", "handed", "done"} => leaf # M
Finishes == <>(stage = "done")
=============================================================================
