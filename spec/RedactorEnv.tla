----------------------------- MODULE RedactorEnv -----------------------------
(***************************************************************************)
(* The environment of the line redactor: how a structured MongoDB log line *)
(* is put together around a command document (the "envelope"), the leaf    *)
(* kinds a client can put into it, and the record that every generator     *)
(* state emits for the replay (input tree + the specification's predicted  *)
(* outcome per flag set).                                                  *)
(***************************************************************************)
EXTENDS Redactor, Json, VerifParams

\* ---- leaves ------------------------------------------------------------
Str(cls, lab)  == [t |-> "str", cls |-> cls, m |-> FALSE, lab |-> lab, o |-> "keep"]
StrM(cls, lab) == [t |-> "str", cls |-> cls, m |-> TRUE, lab |-> lab, o |-> "keep"]
Lit(s)         == [t |-> "str", cls |-> "lit", s |-> s, m |-> FALSE, lab |-> "env", o |-> "keep"]
Num(lab)       == [t |-> "num", lab |-> lab, o |-> "keep"]
Bool(lab)      == [t |-> "bool", lab |-> lab, o |-> "keep"]
Null(lab)      == [t |-> "null", lab |-> lab, o |-> "keep"]

\* a scalar leaf of kind k carrying label lab ("$..." strings are references whatever the position)
Leaf(k, lab) ==
  CASE k = "plain"    -> Str("plain", lab)
    [] k = "email"    -> Str("email", lab)
    [] k = "empty"    -> Str("empty", lab)
    [] k = "dollar"   -> Str("dollar", "ref")
    [] k = "dollarM"  -> StrM("dollar", "ref")
    [] k = "dollarop" -> Str("dollarop", "ref")
    [] k = "plainM"   -> StrM("plain", lab)
    [] k = "date"     -> Str("date", lab)
    [] k = "oid"      -> Str("oid", lab)
    [] k = "b64"      -> Str("b64", lab)
    [] k = "num"      -> Num(lab)
    [] k = "bool"     -> Bool(lab)
    [] k = "null"     -> Null(lab)
ScalarKinds == {"plain", "email", "empty", "dollar", "dollarop", "num", "bool", "null"}

\* ---- envelope ------------------------------------------------------------
\* env: [comp, msg, holder, nsrel, verb]
\*   comp   : text of the "c" field          msg : text of the "msg" field
\*   holder : which attribute(s) carry the command document:
\*            "command" | "cmd" | "originatingCommand" (next to a getMore command) | "all"
\*   nsrel  : "nseq" | "nsprefix" | "nsother" | "none"  (attr.ns vs. the --redactFieldNames value)
NsLeaf(rel) == [t |-> "str", cls |-> rel, m |-> FALSE, lab |-> "ns", o |-> "keep"]
NsName      == [t |-> "str", cls |-> "nsname", m |-> FALSE, lab |-> "ns", o |-> "keep"]

GetMoreCmd == Obj(<< <<"getMore", Num("env")>>, <<"collection", NsName>>, <<"$db", NsName>> >>)

\* holder variants with a damaged envelope (C04: nothing may change; C07: nothing may crash)
BadHolders == {"commandStr", "commandArr", "commandNull", "commandNum", "cmdArr", "origStr"}
Attr(env, cmdDoc) ==
  Obj(   (CASE env.nsrel = "none"  -> << >>
            [] env.nsrel = "nsnum" -> << <<"ns", Num("env")>> >>
            [] OTHER               -> << <<"ns", NsLeaf(env.nsrel)>> >>)
      \o << <<"remote", Str("ip", "remote")>> >>
      \o (CASE env.holder = "command" -> << <<"command", cmdDoc>> >>
            [] env.holder = "cmd"     -> << <<"cmd", cmdDoc>>, <<"error", Lit("E11000 duplicate key")>> >>
            [] env.holder = "originatingCommand" -> << <<"command", GetMoreCmd>>, <<"originatingCommand", cmdDoc>> >>
            [] env.holder = "all"     -> << <<"originatingCommand", cmdDoc>>, <<"cmd", cmdDoc>>, <<"command", cmdDoc>> >>
            [] env.holder = "commandStr"  -> << <<"command", Str("envstr", "env")>> >>
            [] env.holder = "commandArr"  -> << <<"command", Arr(<<cmdDoc>>)>> >>
            [] env.holder = "commandNull" -> << <<"command", Null("env")>>, <<"cmd", cmdDoc>> >>
            [] env.holder = "commandNum"  -> << <<"command", Num("env")>> >>
            [] env.holder = "cmdArr"      -> << <<"cmd", Arr(<<cmdDoc>>)>>, <<"command", cmdDoc>> >>
            [] env.holder = "origStr"     -> << <<"originatingCommand", Str("envstr", "env")>>, <<"command", cmdDoc>> >>)
      \o << <<"planSummary", Str("plan", "plan")>>,
            <<"keysExamined", Num("env")>>,
            <<"envkey", Num("env")>>,
            <<"appName", Str("envstr", "env")>>,
            <<"locks", Obj(<< <<"Global", Obj(<< <<"acquireCount", Obj(<< <<"r", Num("env")>> >>)>> >>)>> >>)>>,
            <<"flowControl", Arr(<< Arr(<< Obj(<< <<"filter", Obj(<< <<"uf1", Str("envstr", "env")>> >>)>> >>) >>) >>)>>,
            \* attributes that merely share their name with a namespace-bearing command field or a zone slot: not part of any command document
            <<"collection", Str("envstr", "env")>>,
            <<"count", Str("envstr", "env")>>,
            <<"$db", Str("envstr", "env")>>,
            <<"filter", Obj(<< <<"uf1", Str("envstr", "env")>> >>)>>,
            \* ... or with the client address (only attr.remote itself is one)
            <<"client", Obj(<< <<"remote", Str("envstr", "env")>>, <<"tags", Arr(<< Obj(<< <<"remote", Str("envstr", "env")>> >>) >>)>> >>)>>,
            <<"durationMillis", Num("env")>> >>)

\* attrKind: "obj" (the usual), or a line whose attr is missing / not a document
LineWith(env, attrVal, hasAttr) ==
  Obj(   << <<"t", Obj(<< <<"$date", Lit("2025-05-30T09:47:39.001+00:00")>> >>)>>,
            <<"s", Lit("I")>>,
            <<"c", Lit(env.comp)>>,
            <<"id", Num("env")>>,
            <<"ctx", Str("envstr", "env")>>,
            <<"msg", Lit(env.msg)>> >>
      \o (IF hasAttr THEN << <<"attr", attrVal>> >> ELSE << >>)
      \o << <<"tags", Arr(<< Str("envstr", "env") >>)>> >>)

Line(env, cmdDoc) == LineWith(env, Attr(env, cmdDoc), TRUE)

DefaultEnv == [comp |-> "COMMAND", msg |-> "Slow query", holder |-> "command", nsrel |-> "nseq"]

\* a command document with one zone slot; documents only count next to an insert verb
Cmd(verb, slot, val) ==
  Obj(<< <<verb, NsName>>, <<slot, val>>, <<"$db", NsName>>, <<"lsid", Obj(<< <<"id", Obj(<< <<"$uuid", Lit("0e9b2a1c-57f1-4d3b-b0a1-8a4f6d2e7c11")>> >>)>> >>)>>,
         \* the command's comment (any BSON value; not part of the query-bearing fields the tool claims)
         <<"comment", Arr(<< Str("envstr", "env"), Obj(<< <<"k", Num("env")>>, <<"t", Str("envstr", "env")>> >>) >>)>> >>)

VerbFor(slot) ==
  CASE slot \in {"filter", "sort"} -> "find"
    [] slot = "query"     -> "count"
    [] slot \in {"update", "arrayFilters"} -> "findAndModify"
    [] slot \in {"updates", "q", "u", "c"} -> "update"
    [] slot = "deletes"   -> "delete"
    [] slot = "documents" -> "insert"
    [] slot = "pipeline"  -> "aggregate"

\* ---- compact JSON for the replay -------------------------------------------
\* a leaf is emitted as a tuple: <<class-or-type, label>> (+ "m" for a name matching the regexp, + the text of a "lit")
LeafCode(v) ==
  CASE v.t = "str"  -> <<v.cls, v.lab>> \o (IF v.m THEN <<"m">> ELSE << >>) \o (IF v.cls = "lit" THEN <<v.s>> ELSE << >>)
    [] OTHER        -> <<v.t, v.lab>>

RECURSIVE Compact(_)
Compact(v) ==
  CASE v.t = "obj" -> [o |-> [i \in 1..Len(v.kv) |-> <<v.kv[i][1], Compact(v.kv[i][2])>>]]
    [] v.t = "arr" -> [a |-> [i \in 1..Len(v.it) |-> Compact(v.it[i])]]
    [] OTHER       -> LeafCode(v)

\* the prediction in compact form: one token per key (K kept, H pseudonymised) and per leaf outcome, in
\* document order, with brackets.  (A sequence of one-character strings, not one string: TLC interns every
\* intermediate string of a concatenation in a global table, which costs more than the redaction itself.)
OutcomeChar(o) ==
  CASE o = "keep" -> "k" [] o = "generic" -> "g" [] o = "email" -> "e" [] o = "isodate" -> "d"
    [] o = "oid" -> "o" [] o = "b64" -> "b" [] o = "zero" -> "z" [] o = "false" -> "f"
    [] o = "hash" -> "h" [] o = "ip" -> "i" [] o = "plan" -> "p"

RECURSIVE FlatStr(_)
FlatStr(v) ==
  LET RECURSIVE catKV(_), catIt(_)
      catKV(i) == IF i > Len(v.kv) THEN << >>
                  ELSE <<IF Len(v.kv[i]) = 3 /\ v.kv[i][3] THEN "H" ELSE "K">> \o FlatStr(v.kv[i][2]) \o catKV(i + 1)
      catIt(i) == IF i > Len(v.it) THEN << >> ELSE FlatStr(v.it[i]) \o catIt(i + 1)
  IN CASE v.t = "obj" -> <<"{">> \o catKV(1) \o <<"}">>
       [] v.t = "arr" -> <<"[">> \o catIt(1) \o <<"]">>
       [] OTHER       -> <<OutcomeChar(v.o)>>

(***************************************************************************)
(* C19 at the level of the design: redaction is a fixed point.  Reclass    *)
(* re-reads an output tree as an input: every placeholder becomes a literal *)
(* of the class its text belongs to.  Idempotent: a second pass leaves     *)
(* every leaf as it is (keeps it, or replaces it by the same placeholder). *)
(***************************************************************************)
ClassOfOutcome(o) ==
  CASE o = "generic" -> "plain" [] o = "email" -> "email" [] o = "isodate" -> "date" [] o = "oid" -> "oid"
    [] o = "b64" -> "b64" [] o = "hash" -> "plain" [] o = "ip" -> "ip" [] o = "plan" -> "plan"
RECURSIVE Reclass(_)
Reclass(v) ==
  CASE v.t = "obj" -> Obj([i \in 1..Len(v.kv) |-> <<v.kv[i][1], Reclass(v.kv[i][2])>>])
    [] v.t = "arr" -> Arr([i \in 1..Len(v.it) |-> Reclass(v.it[i])])
    [] OTHER       -> IF v.o = "keep" THEN v
                      ELSE IF v.t = "str" THEN [v EXCEPT !.cls = ClassOfOutcome(v.o), !.m = FALSE, !.o = "keep"]
                      ELSE [v EXCEPT !.o = "keep"]
Idempotent(c, line) ==
  LET r1 == RedactMongoLog(c, line)
      a  == FlatStr(r1)
      b  == FlatStr(RedactMongoLog(c, Reclass(r1)))
  IN Len(a) = Len(b) /\ \A i \in 1..Len(a) : b[i] = a[i] \/ b[i] = "k"
\* for every flag set of the run without pseudonymisation (C19 excludes --redactNamespaces / --redactFieldNames)
IdempotentAll(line) == \A n \in DOMAIN Cfgs : (~Cfgs[n].ns /\ ~Cfgs[n].eagerOn) => Idempotent(Cfgs[n], line)

\* Cfgs (from VerifParams): function  name -> cfg record
Predict(line) == [n \in DOMAIN Cfgs |-> FlatStr(RedactMongoLog(Cfgs[n], line))]

EmitCase(tag, line) == PrintT(ToJson([g |-> tag, in |-> Compact(line), p |-> Predict(line)]))
\* with generator-specific meta data m (e.g. the grammar edges of the path, for coverage accounting)
EmitCaseM(tag, line, m) == PrintT(ToJson([g |-> tag, in |-> Compact(line), p |-> Predict(line), m |-> m]))
=============================================================================
