-------------------------------- MODULE CliMC --------------------------------
EXTENDS Cli, TLC, Json
SwOn == {s \in Switches : sw[s]}
Rec == [on |-> SwOn, verdict |-> verdict, reason |-> reason, effects |-> effects, rule |-> Rule]
EmitInv == verdict # "pending" => PrintT(ToJson(Rec))
=============================================================================
