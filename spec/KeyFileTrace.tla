----------------------------- MODULE KeyFileTrace ----------------------------
(***************************************************************************)
(* Trace validation for KeyFile: one trace per real run of                 *)
(* `redact in -o out --encrypt -q key`, observed with strace at the        *)
(* syscall boundary and folded into projected state changes:               *)
(*   Init(kind, input)  what the harness put at the key path, which input  *)
(*   OutCreated         the output path was opened with O_CREAT|O_TRUNC     *)
(*   KeyWritten         bytes were written to the key path                  *)
(*   KeyRead            the key path was opened for reading                 *)
(*   OutLine            a write to the output file                          *)
(*   Exit(code)                                                            *)
(* FileExists (a stat) and GenerateKey are silent steps.                   *)
(***************************************************************************)
EXTENDS KeyFile, Json, TLC, Integers

VARIABLE l
TraceLog == ndJsonDeserialize("trace.ndjson")
N   == Len(TraceLog)
Rec == TraceLog[l]
IsEv(e) == l <= N /\ Rec.ev = e
ASSUME TLCSet(1, 1)

TraceInit == /\ l = 1 /\ path = PathRec("absent", NoKey, "none") /\ out = <<>> /\ inUse = NoKey /\ pc = "exited" /\ run = 0
             /\ exit = 0 /\ fresh = 2 /\ hist = <<>> /\ lines = 3 /\ input = "good" /\ env = "none" /\ before = path

TraceStart ==
  /\ IsEv("Init") /\ pc = "exited"
  /\ path' = PathRec(Rec.kind, IF Rec.kind \in ValidKinds THEN 1 ELSE NoKey, "any")
  /\ before' = path' /\ out' = <<>> /\ inUse' = NoKey /\ pc' = "start" /\ run' = run + 1 /\ exit' = 0 /\ fresh' = 2
  /\ hist' = <<>> /\ lines' = Rec.lines /\ input' = Rec.input /\ env' = "none"
  /\ l' = l + 1

Silent == (StatKey \/ Generate) /\ UNCHANGED l
TOutCreated == IsEv("OutCreated") /\ CreateOut /\ l' = l + 1
TKeyWritten == IsEv("KeyWritten") /\ WriteKey /\ pc' = "ready" /\ l' = l + 1
TKeyRead    == IsEv("KeyRead") /\ ReadKey /\ l' = l + 1
TOutLine    == IsEv("OutLine") /\ WriteCipherLine /\ l' = l + 1
TExit ==
  /\ IsEv("Exit") /\ l' = l + 1
  /\ \/ (ExitOk \/ AbortMidRun) /\ exit' = Rec.code
     \/ WriteKey /\ pc' = "exited" /\ Rec.code # 0           \* the key could not be stored: no KeyWritten event, just the exit
     \/ pc = "exited" /\ exit = 1 /\ Rec.code # 0 /\ UNCHANGED vars

TraceNext == TraceStart \/ Silent \/ TOutCreated \/ TKeyWritten \/ TKeyRead \/ TOutLine \/ TExit
TraceSpec == TraceInit /\ [][TraceNext]_<<vars, l>>
HighWater == TLCSet(1, IF l > TLCGet(1) THEN l ELSE TLCGet(1))
Post == PrintT(<<"HIGHWATER", TLCGet(1), N>>)
=============================================================================
