------------------------------ MODULE KeyFileMC ------------------------------
EXTENDS KeyFile, TLC, Json, KeyFileParams
Init == \E k \in Kinds : KeyFileInit(k)
Next == KeyFileNext
Spec == Init /\ [][Next]_vars /\ WF_vars(Next)
Bound == run <= MaxRuns + 1
Rec == [hist |-> hist]
EmitInv == (run = MaxRuns + 1 /\ pc = "start") => PrintT(ToJson([hist |-> hist]))
Finishes == <>(run = MaxRuns + 1)
=============================================================================
