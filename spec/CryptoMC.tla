------------------------------- MODULE CryptoMC -------------------------------
EXTENDS Crypto, TLC, Json
EmitInv == stage = "done" => PrintT(ToJson([scen |-> scen, ok |-> outcome.ok]))
=============================================================================
