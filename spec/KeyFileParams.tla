---- MODULE KeyFileParams ----
MaxRuns == 2
====
