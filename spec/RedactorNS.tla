----------------------------- MODULE RedactorNS ------------------------------
(***************************************************************************)
(* Namespace generator (C12): every command verb the tool declares x every *)
(* line class (command / cmd-only / originating command / ungated          *)
(* components that only carry attr.ns) x every namespace-bearing pipeline  *)
(* stage form x every nesting ($facet, $lookup.pipeline,                   *)
(* $unionWith.pipeline, two levels).  Leaves labelled ns are the positions *)
(* that must be pseudonymised (or otherwise gone) and the only positions   *)
(* at which --redactNamespaces may change the line.                        *)
(***************************************************************************)
EXTENDS RedactorEnv

VARIABLES env, verb, stage, nest, phase

Verbs == {"aggregate", "insert", "find", "update", "delete", "count", "findAndModify", "findOneAndDelete", "replace",
          "findOneAndReplace", "findOneAndUpdate", "getIndexes", "countDocuments", "getMore", "distinct", "explain",
          "aggregateDb", "getLog"}       \* a database-level aggregate: {aggregate: 1, pipeline: [{$currentOp / $changeStream / $documents ...}], $db}
Comps   == {"COMMAND", "WRITE", "NETWORK", "INDEX"}
Msgs    == {"Slow query", "Index build: done"}
Holders == {"command", "cmd", "originatingCommand", "all"}

Other == [t |-> "str", cls |-> "nsother2", m |-> FALSE, lab |-> "ns", o |-> "keep"]     \* a second collection
OtherDb == [t |-> "str", cls |-> "nsotherdb", m |-> FALSE, lab |-> "ns", o |-> "keep"]

Stages == {"none", "lookup", "graphLookup", "unionStr", "unionDoc", "mergeStr", "mergeInto", "mergeIntoDoc", "outStr", "outDoc"}
StageTree(s) ==
  CASE s = "lookup"       -> Obj(<< <<"$lookup", Obj(<< <<"from", Other>>, <<"localField", Str("plain", "free")>>, <<"foreignField", Str("plain", "free")>>, <<"as", Str("plain", "free")>> >>)>> >>)
    [] s = "graphLookup"  -> Obj(<< <<"$graphLookup", Obj(<< <<"from", Other>>, <<"startWith", Leaf("dollar", "ref")>>, <<"connectFromField", Str("plain", "free")>>, <<"connectToField", Str("plain", "free")>>, <<"as", Str("plain", "free")>> >>)>> >>)
    [] s = "unionStr"     -> Obj(<< <<"$unionWith", Other>> >>)
    [] s = "unionDoc"     -> Obj(<< <<"$unionWith", Obj(<< <<"coll", Other>>, <<"pipeline", Arr(<< Obj(<< <<"$limit", Num("keep")>> >>) >>)>> >>)>> >>)
    [] s = "mergeStr"     -> Obj(<< <<"$merge", Other>> >>)
    [] s = "mergeInto"    -> Obj(<< <<"$merge", Obj(<< <<"into", Other>>, <<"whenMatched", Str("plain", "free")>> >>)>> >>)
    [] s = "mergeIntoDoc" -> Obj(<< <<"$merge", Obj(<< <<"into", Obj(<< <<"db", OtherDb>>, <<"coll", Other>> >>)>>, <<"on", Str("plain", "free")>> >>)>> >>)
    [] s = "outStr"       -> Obj(<< <<"$out", Other>> >>)
    [] s = "outDoc"       -> Obj(<< <<"$out", Obj(<< <<"db", OtherDb>>, <<"coll", Other>> >>)>> >>)

Nests == {"top", "facet", "lookupPipe", "unionPipe", "facetFacet"}
Nested(n, st) ==
  CASE n = "top"        -> << st >>
    [] n = "facet"      -> << Obj(<< <<"$facet", Obj(<< <<"uf1", Arr(<< st >>)>> >>)>> >>) >>
    [] n = "lookupPipe" -> << Obj(<< <<"$lookup", Obj(<< <<"from", Other>>, <<"pipeline", Arr(<< st >>)>>, <<"as", Str("plain", "free")>> >>)>> >>) >>
    [] n = "unionPipe"  -> << Obj(<< <<"$unionWith", Obj(<< <<"coll", Other>>, <<"pipeline", Arr(<< st >>)>> >>)>> >>) >>
    [] n = "facetFacet" -> << Obj(<< <<"$facet", Obj(<< <<"uf1", Arr(<< Obj(<< <<"$match", Obj(<< <<"uf2", Leaf("plain", "user")>> >>)>> >>), st >>)>> >>)>> >>) >>

CmdDoc ==
  IF verb = "getMore"
  THEN Obj(<< <<"getMore", Num("env")>>, <<"collection", NsName>>, <<"batchSize", Num("env")>>, <<"$db", NsName>> >>)
  ELSE IF verb = "aggregate"
  THEN Obj(<< <<"aggregate", NsName>>,
              <<"pipeline", Arr(<< Obj(<< <<"$match", Obj(<< <<"uf1", Leaf("plain", "user")>> >>)>> >>) >>
                                \o (IF stage = "none" THEN << >> ELSE Nested(nest, StageTree(stage))))>>,
              <<"cursor", Obj(<< >>)>>, <<"$db", NsName>> >>)
  ELSE IF verb = "aggregateDb"
  THEN Obj(<< <<"aggregate", Num("env")>>,
              <<"pipeline", Arr(<< Obj(<< <<"$currentOp", Obj(<< <<"allUsers", Bool("free")>> >>)>> >>),
                                   Obj(<< <<"$match", Obj(<< <<"uf1", Leaf("plain", "user")>> >>)>> >>) >>)>>,
              <<"cursor", Obj(<< >>)>>, <<"$db", NsName>> >>)
  ELSE IF verb = "getLog"      \* the first field of a command is not always a collection
  THEN Obj(<< <<"getLog", Str("envstr", "env")>>, <<"comment", Str("envstr", "env")>>, <<"$db", NsName>> >>)
  ELSE IF verb = "explain"
  THEN Obj(<< <<"explain", Obj(<< <<"find", NsName>>, <<"filter", Obj(<< <<"uf1", Leaf("plain", "user")>> >>)>> >>)>>, <<"$db", NsName>> >>)
  ELSE Obj(<< <<verb, NsName>>, <<"filter", Obj(<< <<"uf1", Leaf("plain", "user")>> >>)>>, <<"ns", NsLeaf("nseq")>>, <<"$db", NsName>> >>)

CaseLine == Line(env, CmdDoc)

Init == /\ env \in [comp : Comps, msg : Msgs, holder : Holders, nsrel : {"nseq", "none"}]
        /\ verb = "find" /\ stage = "none" /\ nest = "top" /\ phase = 0
Next == \/ /\ phase = 0 /\ verb' \in Verbs \ {"aggregate"} /\ phase' = 2 /\ UNCHANGED <<env, stage, nest>>
        \/ /\ phase = 0 /\ verb' = "aggregate" /\ stage' \in Stages /\ nest' \in Nests /\ phase' = 2 /\ UNCHANGED env
EmitInv == phase = 2 => EmitCase("ns", CaseLine)

\* design level: every ns leaf of a gated line is pseudonymised or otherwise replaced under --redactNamespaces - see C12 check
=============================================================================
