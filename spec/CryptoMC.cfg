SPECIFICATION Spec
INVARIANT RoundTrip
INVARIANT NeverWrongPlaintext
INVARIANT NoPlaintextInOutput
INVARIANT DecryptOnlyReads
INVARIANT EmitInv
PROPERTY Finishes
CHECK_DEADLOCK FALSE
