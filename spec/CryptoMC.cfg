SPECIFICATION Spec
INVARIANT RoundTrip
INVARIANT NeverWrongPlaintext
INVARIANT NoPlaintextInOutput
INVARIANT EmitInv
PROPERTY Finishes
CHECK_DEADLOCK FALSE
