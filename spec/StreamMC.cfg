SPECIFICATION Spec
INVARIANT TypeOK
INVARIANT OutputIsMap
INVARIANT NoRawCopy
INVARIANT OkIsComplete
INVARIANT OnlyTooLongStops
INVARIANT LongNeverEmitted
INVARIANT FailureReported
INVARIANT PrefixOfFaultFree
INVARIANT BarBounded
INVARIANT BarExact
INVARIANT EmitInv
PROPERTY AppendOnly
PROPERTY TerminatesMC
CHECK_DEADLOCK FALSE
