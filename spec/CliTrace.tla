------------------------------ MODULE CliTrace -------------------------------
(***************************************************************************)
(* Trace validation for Cli: each trace is one real run of `anonymongo     *)
(* redact` observed at the syscall boundary (strace of the unmodified      *)
(* binary): Init(on = switches present), then the first occurrence of each *)
(* side effect in program order - "outCreated" (output path opened with    *)
(* O_CREAT), "keyStage" (key file opened), "net" (connect to the proxy),    *)
(* "stream" (input file opened / stdin read) - and End(code).  Validation  *)
(* checks are silent steps.                                                *)
(***************************************************************************)
EXTENDS Cli, Json, TLC, Integers

VARIABLE l
TraceLog == ndJsonDeserialize("trace.ndjson")
N   == Len(TraceLog)
Rec == TraceLog[l]
IsEv(e) == l <= N /\ Rec.ev = e
ASSUME TLCSet(1, 1)

TraceInit == /\ l = 1 /\ sw = [s \in Switches |-> FALSE] /\ pc = "done" /\ effects = <<>> /\ verdict = "idle" /\ reason = "none"

TraceStart ==
  /\ IsEv("Init") /\ verdict # "pending"
  /\ sw' = [s \in Switches |-> \E i \in 1..Len(Rec.on) : Rec.on[i] = s]
  /\ pc' = Steps[1] /\ effects' = <<>> /\ verdict' = "pending" /\ reason' = "none"
  /\ l' = l + 1

\* a validation check that passes, or an effect step that has no effect for these switches, is not observable
Silent ==
  /\ \/ \E s \in ValidationSteps : Check(s) /\ verdict' = "pending"
     \/ CreateOutput /\ ~sw["out"]
     \/ KeyStage /\ ~sw["enc"]
  /\ UNCHANGED l

TraceEffect ==
  /\ IsEv("Effect") /\ l' = l + 1
  /\ \/ Rec.what = "outCreated" /\ CreateOutput /\ sw["out"]
     \/ Rec.what = "keyStage" /\ KeyStage /\ sw["enc"]
     \/ Rec.what \in {"net", "stream"} /\ Go /\ effects'[Len(effects')] = Rec.what

TraceEnd ==
  /\ IsEv("End") /\ l' = l + 1
  /\ \/ \E s \in ValidationSteps : Check(s) /\ verdict' = "rejected" /\ Rec.code # 0
     \/ verdict = "accepted" /\ UNCHANGED vars

TraceNext == TraceStart \/ Silent \/ TraceEffect \/ TraceEnd
TraceSpec == TraceInit /\ [][TraceNext]_<<vars, l>>
HighWater == TLCSet(1, IF l > TLCGet(1) THEN l ELSE TLCGet(1))
Post == PrintT(<<"HIGHWATER", TLCGet(1), N>>)
TRejectionIsPure == verdict = "rejected" => effects = <<>>
=============================================================================
