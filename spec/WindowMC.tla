------------------------------ MODULE WindowMC -------------------------------
EXTENDS Window, TLC, Json
EmitInv == Len(hist) = MaxSteps => PrintT(ToJson([hist |-> hist, now |-> now]))
=============================================================================
