---- MODULE VerifParams ----
\* Default parameters; every check overwrites this module in its scratch copy of spec/ (lib/common.py run_tlc).
BaseCfg == [num |-> FALSE, bool |-> FALSE, ips |-> FALSE, ns |-> FALSE, eagerOn |-> FALSE, re |-> FALSE, anch |-> FALSE, matchKeys |-> {}]
Cfgs == [base |-> BaseCfg,
         all  |-> [BaseCfg EXCEPT !.num = TRUE, !.bool = TRUE, !.ips = TRUE, !.ns = TRUE]]
TWTables == {}
TWShapeKinds == {}
EWDamaged == FALSE
FreeDepth == 1
FreeKeys == {}
FreeSlots == {}
GMDepth == 4
GMWide == 1
GMMaxFld == 2
GMMaxArr == 2
GMTail == 2
GMShallow == 2
GMSeeds == << >>
GMSlots == {}
GMFields == {"uf1"}
GMBelow == {}
GMKinds == {"plain", "email", "num", "bool", "dollar", "date", "oid", "b64", "nsname", "null", "empty"}
====
