---- MODULE VerifParams ----
\* Default parameters; every check overwrites this module in its scratch copy of spec/ (lib/common.py run_tlc).
BaseCfg == [num |-> FALSE, bool |-> FALSE, ips |-> FALSE, ns |-> FALSE, eagerOn |-> FALSE, re |-> FALSE, anch |-> FALSE, matchKeys |-> {}]
Cfgs == [base |-> BaseCfg,
         all  |-> [BaseCfg EXCEPT !.num = TRUE, !.bool = TRUE, !.ips = TRUE, !.ns = TRUE]]
TWTables == {}
TWShapeKinds == {}
FreeDepth == 1
FreeKeys == {}
FreeSlots == {}
====
