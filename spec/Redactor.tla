------------------------------ MODULE Redactor ------------------------------
(***************************************************************************)
(* L3 of anonymongo - the redaction of ONE log line - transcribed function *)
(* by function from src/anonymizer.go (Go names kept, so that the file can *)
(* be held next to the source).  Everything is an operator over abstract   *)
(* JSON trees; there are no variables: the generators (RedactorTW,         *)
(* RedactorGM, RedactorEnv) own the state and call RedactMongoLog.         *)
(*                                                                         *)
(* Abstract JSON                                                           *)
(*   object  [t |-> "obj", kv |-> <<  <<key, value>>, ... >>]   (ordered)  *)
(*   array   [t |-> "arr", it |-> << value, ... >>]                        *)
(*   string  [t |-> "str", cls, m, lab, o]                                 *)
(*             cls: "plain" "email" "empty" "dollar" ($name of a user      *)
(*                  field) "dollarop" ($name that is a key of              *)
(*                  CoreOperators) "lit" (a fixed text, field s)           *)
(*             m  : the name (leading $ stripped) matches                  *)
(*                  --redactFieldsRegexp                                   *)
(*   number  [t |-> "num", lab, o]   boolean [t |-> "bool", lab, o]        *)
(*   null    [t |-> "null", lab, o]                                        *)
(* The model cannot look at the contents of a literal - only at its class  *)
(* and position - so "the output does not depend on the contents" (C02) is *)
(* true of the model by construction and becomes the conformance statement *)
(* that the replay checks on the real code.                                *)
(*                                                                         *)
(* Output: the same tree; every leaf has o set to its outcome              *)
(*   "keep" | "generic" | "email" | "isodate" | "oid" | "b64" | "zero" |   *)
(*   "false" | "hash" (pseudonym) | "ip" | "plan" (plan summary rewritten) *)
(* and object entries become triples <<key, value, keyIsPseudonymised>>    *)
(* where the walker rebuilt the object (pairs where a subtree was carried  *)
(* over untouched).                                                        *)
(*                                                                         *)
(* cfg record: num, bool, ips, ns : BOOLEAN  (the value flags)             *)
(*             eagerOn : BOOLEAN  (--redactFieldNames given)               *)
(*             re      : BOOLEAN  (--redactFieldsRegexp given)             *)
(*             anch    : BOOLEAN  (the regexp is anchored at the start, so *)
(*                       a raw "$name" does not match where "name" does)   *)
(*             matchKeys : the set of object keys that match the regexp    *)
(***************************************************************************)
EXTENDS Naturals, Sequences, TLC, OperatorTables

Obj(kv)   == [t |-> "obj", kv |-> kv]
Arr(it)   == [t |-> "arr", it |-> it]
Keep(v)   == v                      \* input leaves carry o |-> "keep"
Out(v, o) == [v EXCEPT !.o = o]

NotFound == [ok |-> FALSE, v |-> Nil]
Found(x) == [ok |-> TRUE, v |-> x]

IsDollar(v) == v.t = "str" /\ v.cls \in {"dollar", "dollarop"}
IsStr(v)    == v.t = "str"

(***************************************************************************)
(* helpers.go: RemoveElementAfter / RemoveElementsBeforeIncluding          *)
(* (both return new slices; until fix bb9eea3 the first one wrote into the  *)
(* caller's slice, which the specification modelled as an operator Mut)    *)
(***************************************************************************)
FirstMarker(s, marker) ==
  CHOOSE j \in 1..Len(s) : /\ s[j] = marker /\ j + 1 <= Len(s)
                           /\ \A h \in 1..(j-1) : ~(s[h] = marker /\ h + 1 <= Len(s))
HasMarker(s, marker) == \E i \in 1..Len(s) : s[i] = marker /\ i + 1 <= Len(s)

RemoveElementAfter(s, marker) ==
  IF HasMarker(s, marker)
  THEN LET i == FirstMarker(s, marker) IN SubSeq(s, 1, i) \o SubSeq(s, i + 2, Len(s))
  ELSE s
RemoveElementsBeforeIncluding(s, marker) ==
  IF HasMarker(s, marker)
  THEN LET i == FirstMarker(s, marker) IN SubSeq(s, i + 1, Len(s))
  ELSE << >>

(***************************************************************************)
(* anonymizer.go: traverseMapPath, getOp                                   *)
(***************************************************************************)
RECURSIVE traverseMapPath(_, _, _), TLoop(_, _, _, _)
TLoop(path, i, cur, search) ==
  IF i > Len(path) THEN (IF cur.tag # "gonil" THEN Found(cur) ELSE NotFound)
  ELSE IF cur.tag # "tab" THEN NotFound
  ELSE IF path[i] \notin DOMAIN cur.m THEN NotFound
  ELSE LET val == cur.m[path[i]] IN
       IF Len(path) > i /\ val = OA
       THEN traverseMapPath(SubSeq(path, i + 1, Len(path)),
                            IF search THEN SearchOperators ELSE CoreOperators, search)
       ELSE IF val = OM
       THEN LET cut     == path[i]
                opVal   == IF cut \in DOMAIN OperatorMapDefs.m THEN OperatorMapDefs.m[cut] ELSE Nil
                newPath == RemoveElementsBeforeIncluding(RemoveElementAfter(path, cut), cut)
            IN IF Len(newPath) < Len(path) /\ opVal.tag = "tab"
               THEN traverseMapPath(newPath, opVal, search)
               ELSE Found(val)
       ELSE TLoop(path, i + 1, val, search)
traverseMapPath(path, tab, search) == TLoop(path, 1, tab, search)

getOp(kp, search) ==
  LET last == kp[Len(kp)] IN
  IF search
  THEN LET r == traverseMapPath(kp, SearchAggregationOperators, TRUE) IN
       IF r.ok THEN r
       ELSE IF last \in DOMAIN SearchOperators.m THEN Found(SearchOperators.m[last]) ELSE NotFound
  ELSE IF last \in DOMAIN CoreOperators.m THEN Found(CoreOperators.m[last])
       ELSE traverseMapPath(kp, AggregationOperators, FALSE)

\* getOp([]string{s}) for a string VALUE: abstract strings equal a vocabulary word only in class "dollarop"
StrIsOp(v, search) == ~search /\ v.cls = "dollarop"

(***************************************************************************)
(* regexp helpers                                                          *)
(***************************************************************************)
reMatchesAnyKeyInPath(c, kp) == \E i \in 1..Len(kp) : kp[i] \in c.matchKeys
\* regexp.MatchString on a string VALUE, as written (augmentOp)
RawMatch(c, v)      == IF IsDollar(v) THEN v.m /\ ~c.anch ELSE v.m
isRedactableFieldPatternInArray(c, arr) ==
  c.re /\ \E i \in 1..Len(arr.it) : IsDollar(arr.it[i]) /\ arr.it[i].m

(***************************************************************************)
(* anonymizer.go: redactScalarValue (redactString is the choke point that  *)
(* turns the five string placeholders into ciphertext under --encrypt; the *)
(* model records the placeholder class, Crypto.tla does the rest)          *)
(***************************************************************************)
redactScalarValue(c, kp, v, search, selRed) ==
  LET op  == getOp(kp, search)
      pk  == kp[Len(kp)]
      gpk == IF Len(kp) > 1 THEN kp[Len(kp) - 1] ELSE ""
  IN IF op.ok /\ op.v = E THEN Keep(v)
     ELSE IF ~search /\ c.re /\ ~selRed /\ ~reMatchesAnyKeyInPath(c, kp) THEN Keep(v)
     ELSE IF pk = "subType" /\ gpk = "$binary" THEN Keep(v)      \* BSON subtype is not user data (fix 2296b25)
     ELSE IF IsStr(v) /\ pk = "$date" THEN Out(v, "isodate")
     ELSE IF IsStr(v) /\ pk = "$oid" THEN Out(v, "oid")
     ELSE IF IsStr(v) /\ pk = "base64" /\ gpk = "$binary" THEN Out(v, "b64")
     ELSE CASE v.t = "str"  -> IF v.cls = "email" THEN Out(v, "email") ELSE Out(v, "generic")
            [] v.t = "num"  -> IF c.num THEN Out(v, "zero") ELSE Keep(v)
            [] v.t = "bool" -> IF c.bool THEN Out(v, "false") ELSE Keep(v)
            [] OTHER        -> Keep(v)

\* "$..." strings in the query and array walkers
DollarOut(v, eager) == IF eager /\ v.cls # "dollarop" THEN Out(v, "hash") ELSE Keep(v)

(***************************************************************************)
(* anonymizer.go: redactQueryValues, redactArrayValuesWithKey,             *)
(* redactPipelineStage (mutually recursive)                                *)
(***************************************************************************)
RECURSIVE redactQueryValues(_, _, _, _, _, _), redactArrayValuesWithKey(_, _, _, _, _, _, _),
          redactPipelineStage(_, _, _, _, _), redactOperandList(_, _, _, _, _)

redactNamespaceDocument(ns) ==
  Obj([i \in 1..Len(ns.kv) |->
        IF IsStr(ns.kv[i][2]) /\ ns.kv[i][1] \in {"db", "coll"}
        THEN <<ns.kv[i][1], Out(ns.kv[i][2], "hash"), FALSE>>
        ELSE <<ns.kv[i][1], Keep(ns.kv[i][2]), FALSE>>])

\* the short forms {$out: "coll"} and {$unionWith: "coll"} (fix 8722afe)
stageNamespaceString(c, k, v) == c.ns /\ k \in {"$out", "$unionWith", "$merge"} /\ IsStr(v)

redactQueryValues(c, obj, eager, search, parentCoreOp, kp) ==
  Obj([i \in 1..Len(obj.kv) |->
    LET k    == obj.kv[i][1]
        v    == obj.kv[i][2]
        nkp  == Append(kp, k)
        look == IF parentCoreOp.tag = "tab"
                THEN (IF k \in DOMAIN parentCoreOp.m THEN Found(parentCoreOp.m[k]) ELSE NotFound)
                ELSE (IF k \in DOMAIN CoreOperators.m THEN Found(CoreOperators.m[k]) ELSE NotFound)
        coreOp == look.v
    IN << k,
          CASE stageNamespaceString(c, k, v) -> Out(v, "hash")
            \* stages of sub-pipelines come through the query walker: their collection arguments are namespaces (fix 8722afe)
            [] c.ns /\ look.ok /\ coreOp = NS /\ IsStr(v)    -> Out(v, "hash")
            [] c.ns /\ look.ok /\ coreOp = NS /\ v.t = "obj" -> redactNamespaceDocument(v)
            [] v.t = "obj"  -> redactQueryValues(c, v, eager, search, coreOp, nkp)
            [] v.t = "arr"  -> redactArrayValuesWithKey(c, k, v, eager, search,
                                                        isRedactableFieldPatternInArray(c, v), nkp)
            [] v.t = "null" -> Keep(v)
            [] IsDollar(v)  -> DollarOut(v, eager)
            [] OTHER        -> IF coreOp = E THEN Keep(v) ELSE redactScalarValue(c, nkp, v, search, FALSE),
          eager /\ ~look.ok >>])

redactArrayValuesWithKey(c, parentKey, arr, eager, search, selRed, kp) ==
  LET skp == IF Len(kp) = 0 \/ (parentKey # "" /\ kp[Len(kp)] # parentKey) THEN Append(kp, parentKey) ELSE kp
  IN Arr([i \in 1..Len(arr.it) |->
       LET it == arr.it[i] IN
       CASE it.t = "obj"  -> redactQueryValues(c, it, eager, search, Nil, kp)
         [] it.t = "arr"  -> redactArrayValuesWithKey(c, parentKey, it, eager, search, selRed, kp)
         [] it.t = "null" -> Keep(it)
         [] IsDollar(it)  -> DollarOut(it, eager)
         [] OTHER         -> redactScalarValue(c, skp, it, search, selRed)])

redactArrayValues(c, arr, eager, search, selRed, kp) ==
  redactArrayValuesWithKey(c, "", arr, eager, search, selRed, kp)

isInSearchStage(stage) ==
  stage.t = "obj" /\ \E i \in 1..Len(stage.kv) : stage.kv[i][1] \in TopLevelSearchOperators

augmentOp(c, op, v) ==
  IF ~c.re THEN op
  ELSE LET convert == \E i \in 1..Len(v.kv) :
                          /\ v.kv[i][1] \in DOMAIN op.m
                          /\ op.m[v.kv[i][1]] = FN
                          /\ IsStr(v.kv[i][2]) /\ v.kv[i][2].cls # "empty"
                          /\ ~RawMatch(c, v.kv[i][2])
       IN IF convert THEN Tab([k \in DOMAIN op.m |-> IF op.m[k] = R THEN E ELSE op.m[k]]) ELSE op

expressionArguments == {"$sortByCount", "groupBy", "newRoot"}

redactExpressionArgument(c, key, v, kp, search) ==
  IF key \notin expressionArguments THEN Keep(v)
  ELSE CASE v.t = "obj" -> redactPipelineStage(c, v, FALSE, kp, search)
         [] v.t = "arr" -> redactArrayValues(c, v, FALSE, search, isRedactableFieldPatternInArray(c, v), kp)
         [] OTHER       -> Keep(v)


\* the tail of the per-key loop of redactPipelineStage (no special operator type applied)
StageGeneric(c, v, eager, nkp, search) ==
  IF IsDollar(v) THEN DollarOut(v, eager)      \* kept, or its pseudonym under --redactFieldNames (fix 518f870)
  ELSE CASE v.t = "obj" -> redactPipelineStage(c, v, eager, nkp, search)
         [] v.t = "arr" -> redactArrayValues(c, v, eager, search, isRedactableFieldPatternInArray(c, v), nkp)
         [] OTHER       -> redactScalarValue(c, nkp, v, search, FALSE)

\* the sub-key loop taken when the operator's meta is a table and the value a document
StageSubMap(c, k, v, meta, eager, nkp, search) ==
  Obj([j \in 1..Len(v.kv) |->
    LET sk   == v.kv[j][1]
        sv   == v.kv[j][2]
        found == sk \in DOMAIN meta.m
        sm   == IF found THEN meta.m[sk] ELSE Nil
        skp  == Append(nkp, sk)
        hk   == eager /\ (~found \/ sm = GoNil)
    IN
    IF sm = FN THEN
         << sk,
            IF eager
            THEN CASE IsStr(sv)      -> IF StrIsOp(sv, search) THEN Keep(sv) ELSE Out(sv, "hash")
                   [] sv.t = "obj"   -> redactPipelineStage(c, sv, eager, skp, search)
                   [] sv.t = "arr"   -> redactArrayValues(c, sv, eager, search, isRedactableFieldPatternInArray(c, sv), skp)
                   [] OTHER          -> redactScalarValue(c, <<k>>, sv, search, FALSE)
            ELSE redactExpressionArgument(c, sk, sv, skp, search),
            FALSE >>
    ELSE IF sm = NS THEN
         << sk,
            IF c.ns
            THEN CASE IsStr(sv)    -> Out(sv, "hash")
                   [] sv.t = "obj" -> redactNamespaceDocument(sv)
                   [] OTHER        -> Keep(sv)
            ELSE Keep(sv),
            FALSE >>
    ELSE IF sm = E THEN << sk, Keep(sv), FALSE >>
    ELSE IF sm = OA /\ sv.t = "arr" THEN    \* (a single operand without the array: redacted like any other value, below)
         << sk, redactOperandList(c, sv, eager, nkp, search), FALSE >>
    ELSE IF sm = P THEN
         << sk,
            IF sv.t = "arr" THEN redactArrayValues(c, sv, eager, search, isRedactableFieldPatternInArray(c, sv), nkp)
            ELSE Keep(sv),
            FALSE >>
    ELSE << sk,
            CASE sv.t = "obj" -> redactPipelineStage(c, sv, eager, skp, search)
              [] sv.t = "arr" -> redactArrayValues(c, sv, eager, search, isRedactableFieldPatternInArray(c, sv), skp)
              [] IsDollar(sv) -> DollarOut(sv, eager)                              \* fix 93ef52c (C15)
              [] OTHER        -> redactScalarValue(c, skp, sv, search, FALSE),     \* whole path since fix (C14)
            hk >>])

redactPipelineStage(c, stage, eager, kp, search) ==
  CASE stage.t = "arr" -> redactArrayValues(c, stage, eager, search, isRedactableFieldPatternInArray(c, stage), kp)
    [] stage.t # "obj" -> Keep(stage)
    [] OTHER ->
  Obj([i \in 1..Len(stage.kv) |->
    LET k     == stage.kv[i][1]
        v     == stage.kv[i][2]
        nkp   == Append(kp, k)
        op    == getOp(nkp, search)
        meta0 == IF op.ok THEN op.v ELSE Nil
        hk    == eager /\ ~op.ok
        meta  == IF op.ok /\ search /\ meta0.tag = "tab" /\ v.t = "obj" THEN augmentOp(c, meta0, v) ELSE meta0
    IN
    IF stageNamespaceString(c, k, v) THEN << k, Out(v, "hash"), FALSE >>
    ELSE IF meta = FN THEN
         << k,
            IF eager
            THEN CASE IsStr(v)     -> IF Len(kp) > 0 \/ StrIsOp(v, search) THEN Keep(v) ELSE Out(v, "hash")
                   [] v.t = "obj"  -> redactPipelineStage(c, v, eager, nkp, search)
                   [] v.t = "arr"  -> redactArrayValues(c, v, eager, search, isRedactableFieldPatternInArray(c, v), nkp)
                   [] OTHER        -> redactScalarValue(c, <<k>>, v, search, FALSE)
            ELSE redactExpressionArgument(c, k, v, nkp, search),
            hk >>
    ELSE IF meta = NS THEN << k, IF c.ns /\ IsStr(v) THEN Out(v, "hash") ELSE Keep(v), hk >>
    ELSE IF meta = E THEN << k, Keep(v), hk >>
    ELSE IF meta = P THEN
         << k,
            CASE v.t = "arr" -> redactArrayValues(c, v, eager, search, isRedactableFieldPatternInArray(c, v), nkp)
              [] v.t = "obj" -> Obj([j \in 1..Len(v.kv) |->
                                   IF v.kv[j][2].t = "arr"
                                   THEN << v.kv[j][1],
                                           Arr([s \in 1..Len(v.kv[j][2].it) |->
                                                 redactPipelineStage(c, v.kv[j][2].it[s], eager, << >>,
                                                                     isInSearchStage(v.kv[j][2].it[s]))]),
                                           FALSE >>
                                   ELSE << v.kv[j][1], Keep(v.kv[j][2]), FALSE >>])
              [] OTHER       -> Keep(v),
            hk >>
    ELSE IF meta = OA /\ v.t = "arr" THEN
         << k, redactOperandList(c, v, eager, nkp, search), hk >>
    ELSE IF meta.tag = "tab" /\ v.t = "obj" THEN << k, StageSubMap(c, k, v, meta, eager, nkp, search), hk >>
    ELSE << k, StageGeneric(c, v, eager, nkp, search), hk >>])

\* operands of $and / $or / must / should: documents and arrays as stages, bare literals like the literals of any array (fix 8e6f334)
redactOperandList(c, arr, eager, kp, search) ==
  Arr([e \in 1..Len(arr.it) |->
        IF arr.it[e].t \in {"obj", "arr"} THEN redactPipelineStage(c, arr.it[e], eager, kp, search)
        ELSE redactArrayValues(c, Arr(<<arr.it[e]>>), eager, search, FALSE, kp).it[1]])

(***************************************************************************)
(* anonymizer.go: redactCommand, redactUpdatePipeline, redactNamespace     *)
(***************************************************************************)
HasKey(obj, key) == \E i \in 1..Len(obj.kv) : obj.kv[i][1] = key
GetKey(obj, key) == obj.kv[CHOOSE i \in 1..Len(obj.kv) : obj.kv[i][1] = key][2]

redactUpdatePipeline(c, p, eager) ==
  Arr([i \in 1..Len(p.it) |-> redactPipelineStage(c, p.it[i], eager, << >>, isInSearchStage(p.it[i]))])

QueryKeys    == {"query", "filter", "sort", "q"}
UpdateKeys   == {"update", "u"}
ArrayKeys    == {"updates", "deletes", "arrayFilters"}    \* arrayFilters: fix bc945a7
ConstKeys    == {"c"}                                          \* constants of a pipeline-style update (same fix)
NamespaceFields == {"ns", "aggregate", "insert", "find", "update", "collection", "delete", "$db", "count",
                    "findAndModify", "findOneAndDelete", "replace", "findOneAndReplace", "findOneAndUpdate",
                    "getIndexes", "countDocuments"}

\* redactCommand followed (under --redactNamespaces) by redactNamespace, one pass over the keys:
\* the two functions touch disjoint (key, value kind) combinations.
redactCommand(c, cmd, eager) ==
  Obj([i \in 1..Len(cmd.kv) |->
    LET k == cmd.kv[i][1]
        v == cmd.kv[i][2]
    IN << k,
          IF k \in QueryKeys /\ v.t = "obj" THEN redactQueryValues(c, v, eager, FALSE, Nil, << >>)
          ELSE IF k \in UpdateKeys \cup ConstKeys /\ v.t = "obj" THEN redactQueryValues(c, v, eager, FALSE, Nil, << >>)
          ELSE IF k \in UpdateKeys /\ v.t = "arr" THEN redactUpdatePipeline(c, v, eager)
          ELSE IF k \in ArrayKeys /\ v.t = "arr" THEN redactArrayValues(c, v, eager, FALSE, FALSE, << >>)
          ELSE IF k = "documents" /\ v.t = "arr" /\ HasKey(cmd, "insert")
               THEN redactArrayValues(c, v, eager, FALSE, FALSE, << >>)
          ELSE IF k = "pipeline" /\ v.t = "arr" THEN redactUpdatePipeline(c, v, eager)
          ELSE IF c.ns /\ k \in NamespaceFields /\ IsStr(v) THEN Out(v, "hash")
          ELSE Keep(v),
          FALSE >>])

(***************************************************************************)
(* anonymizer.go: RedactMongoLog                                           *)
(***************************************************************************)
LitIs(obj, key, texts) ==
  HasKey(obj, key) /\ IsStr(GetKey(obj, key)) /\ GetKey(obj, key).cls = "lit" /\ GetKey(obj, key).s \in texts

CommandHolders == {"originatingCommand", "cmd", "command"}

\* the class of the attr.ns string says how it relates to the --redactFieldNames value: "nseq" equal, "nsprefix"
\* the value is a proper prefix of it, anything else: no relation
LineIsEager(c, attr) ==
  /\ c.eagerOn
  /\ HasKey(attr, "ns") /\ IsStr(GetKey(attr, "ns"))
  /\ GetKey(attr, "ns").cls \in {"nseq", "nsprefix"}

RedactMongoLog(c, line) ==
  IF ~HasKey(line, "attr") \/ GetKey(line, "attr").t # "obj" THEN line
  ELSE
  LET attr  == GetKey(line, "attr")
      gated == LitIs(line, "c", {"COMMAND", "QUERY", "WRITE"}) \/ LitIs(line, "msg", {"Slow query"})
      eager == LineIsEager(c, attr)
      newAttr ==
        Obj([i \in 1..Len(attr.kv) |->
          LET k == attr.kv[i][1]
              v == attr.kv[i][2]
          IN << k,
                IF k = "remote" /\ c.ips /\ IsStr(v) THEN Out(v, "ip")
                ELSE IF gated /\ k \in CommandHolders /\ v.t = "obj" THEN redactCommand(c, v, eager)
                ELSE IF gated /\ eager /\ k = "planSummary" /\ IsStr(v) THEN Out(v, "plan")
                ELSE IF k = "ns" /\ c.ns /\ IsStr(v) THEN Out(v, "hash")
                ELSE Keep(v),
                FALSE >>])
  IN Obj([i \in 1..Len(line.kv) |->
          IF line.kv[i][1] = "attr" THEN <<"attr", newAttr, FALSE>> ELSE <<line.kv[i][1], Keep(line.kv[i][2]), FALSE>>])

(***************************************************************************)
(* Flatten: the prediction in compact form - DFS sequence of key flags     *)
(* ("K" kept / "H" pseudonymised) and leaf outcomes                        *)
(***************************************************************************)
RECURSIVE Flatten(_)
FlattenSeq(s, f(_)) ==
  LET RECURSIVE cat(_)
      cat(i) == IF i > Len(s) THEN << >> ELSE f(s[i]) \o cat(i + 1)
  IN cat(1)
Flatten(v) ==
  CASE v.t = "obj" -> FlattenSeq(v.kv, LAMBDA e : <<IF Len(e) = 3 /\ e[3] THEN "H" ELSE "K">> \o Flatten(e[2]))
    [] v.t = "arr" -> FlattenSeq(v.it, LAMBDA e : Flatten(e))
    [] OTHER       -> <<v.o>>
=============================================================================
