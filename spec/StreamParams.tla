---- MODULE StreamParams ----
\* Default bounds; every check overwrites this module in its scratch copy of spec/.
SKinds == {"cmd", "oth", "blank", "txt", "long"}
SMaxLen == 3
SWrKinds == {"none", "err", "once", "short", "shortonce"}
SRdOn == TRUE
SBar == {TRUE, FALSE}
====
