----------------------------- MODULE StreamTrace -----------------------------
(***************************************************************************)
(* Trace validation for Stream: executions recorded from the real code     *)
(* (in-process driver: one event per Write call of the output writer; CLI: *)
(* the bytes that reached the output channel, split into lines) are        *)
(* checked to be behaviours of Stream.  A log is a concatenation of        *)
(* traces; each starts with an Init record carrying the environment the    *)
(* harness set up (line kinds, final newline, bar, injected faults), then  *)
(* one Emit(line) per completely written line, ShortWrite(line) for a      *)
(* partially written one, and End(status).  Scanning, skipping and parse   *)
(* failures are not observable without hooks: they are silent steps        *)
(* (bounded: each consumes an input line).                                 *)
(***************************************************************************)
EXTENDS Stream, Json, TLC, Integers

VARIABLE l

TraceLog == ndJsonDeserialize("trace.ndjson")
N   == Len(TraceLog)
Rec == TraceLog[l]
IsEv(e) == l <= N /\ Rec.ev = e

ASSUME TLCSet(1, 1)

TraceInit ==
  /\ l = 1
  /\ input = <<>> /\ finalNL = FALSE /\ barOn = FALSE
  /\ wr = [k |-> 0, kind |-> "none"] /\ rd = [line |-> 1, mid |-> FALSE, on |-> FALSE]
  /\ pos = 0 /\ cur = None /\ out = <<>> /\ tail = 0 /\ nwrites = 0 /\ barCur = 0
  /\ rdHit = FALSE /\ faulted = FALSE /\ status = "ok" /\ cause = "none"

\* first record of a trace (also joins traces: the previous one must have ended)
TraceStart ==
  /\ IsEv("Init") /\ status # "running"
  /\ input' = Rec.input /\ finalNL' = Rec.finalNL /\ barOn' = Rec.bar /\ wr' = Rec.wr /\ rd' = Rec.rd
  /\ pos' = 0 /\ cur' = None /\ out' = <<>> /\ tail' = 0 /\ nwrites' = 0 /\ barCur' = 0
  /\ rdHit' = FALSE /\ faulted' = FALSE /\ status' = "running" /\ cause' = "none"
  /\ l' = l + 1

Silent == (ScanLine \/ ScanPartial \/ SkipBlankAtMax \/ ParseFail) /\ UNCHANGED l

TraceEmit == IsEv("Emit") /\ Emit /\ pos = Rec.line /\ l' = l + 1

TraceShort == IsEv("ShortWrite") /\ EmitWriteFail /\ wr.kind \in {"short", "shortonce"} /\ pos = Rec.line /\ l' = l + 1

TraceEnd ==
  /\ IsEv("End") /\ l' = l + 1
  /\ \/ (Eof \/ ScanError \/ TooLong) /\ status' = Rec.status
     \/ EmitWriteFail /\ tail' = 0 /\ status' = Rec.status      \* a failing write that delivered nothing leaves no event of its own
     \/ status # "running" /\ status = Rec.status /\ UNCHANGED vars

TraceNext == TraceStart \/ Silent \/ TraceEmit \/ TraceShort \/ TraceEnd
TraceSpec == TraceInit /\ [][TraceNext]_<<vars, l>>

HighWater == TLCSet(1, IF l > TLCGet(1) THEN l ELSE TLCGet(1))
Post == PrintT(<<"HIGHWATER", TLCGet(1), N>>)
=============================================================================
