SPECIFICATION TraceSpec
CONSTRAINT HighWater
INVARIANT NoTempAtExit
INVARIANT RequestsExact
INVARIANT OutIndexIsHost
INVARIANT NoChallengeNoCredentials
INVARIANT KeyStageFirst
POSTCONDITION Post
CHECK_DEADLOCK FALSE
