SPECIFICATION TraceSpec
CONSTRAINT HighWater
INVARIANT NoTempAtExit
INVARIANT RequestsExact
INVARIANT OutIndexIsHost
INVARIANT NoChallengeNoCredentials
POSTCONDITION Post
CHECK_DEADLOCK FALSE
