SPECIFICATION CliSpec
INVARIANT AcceptIffWellDefined
INVARIANT RejectionIsPure
INVARIANT RunsItsSource
INVARIANT EffectOrder
INVARIANT EmitInv
PROPERTY Decides
CHECK_DEADLOCK FALSE
