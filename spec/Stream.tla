------------------------------- MODULE Stream --------------------------------
(***************************************************************************)
(* L2 - one run of the stream loop (src/reader.go processMongoLogStream,   *)
(* reached from ProcessMongoLogFile / ProcessMongoLogFileFromReader and    *)
(* from main.go's three channels).  One action per branch of the loop:     *)
(*                                                                         *)
(*   for scanner.Scan() {                       ScanLine / ScanPartial     *)
(*     if line == "" && bar at max { continue } SkipBlankAtMax             *)
(*     RedactMongoLog -> err  { continue }      ParseFail                  *)
(*     MarshalOrdered -> err  { continue }      (never fails on a parsed   *)
(*                                               tree: folded in ParseFail)*)
(*     Fprintln(out) -> err   { return err }    Emit / EmitWriteFail       *)
(*   }                                                                     *)
(*   scanner.Err() != nil { return err }        ScanError / TooLong        *)
(*   return nil                                 Eof                        *)
(*                                                                         *)
(* Lines are abstract: only the *kind* of a line matters to the loop.      *)
(* Faults are part of the environment chosen in Init and are independently *)
(* enabled actions, so TLC explores every position.                        *)
(***************************************************************************)
EXTENDS Naturals, Sequences, FiniteSets, SequencesExt

ObjKinds  == {"cmd", "oth", "padded"}      \* exactly one JSON object (padded: surrounded by spaces/tabs)
BlankKind == "blank"                        \* the scanner yields ""
JunkKinds == {"ws", "txt", "arr", "scalar", "trunc", "trail", "legacy"}
                                            \* whitespace only, free text, top-level array / scalar, object cut short,
                                            \* object followed by garbage, legacy text-format log line
LongKind  == "long"                         \* longer than the scanner's 64 KiB token limit
Kinds     == ObjKinds \cup {BlankKind} \cup JunkKinds \cup {LongKind}
None      == "none"

VARIABLES
  input,    \* Seq(Kinds)    the log
  finalNL,  \* BOOLEAN       the last line is newline-terminated
  barOn,    \* BOOLEAN       a progress bar exists (file input and --outputFile, or Atlas mode)
  wr,       \* [k, kind]     the k-th output write fails: kind "err" (nothing written, and every later write fails too: a full
            \*               disk stays full) | "once" (only that write fails) | "short" (part written) | "shortonce" (part written, and only that
            \*               write fails: a device that is busy for a moment - EAGAIN, EINTR) | "none"
  rd,       \* [line, mid, on] reading fails in front of line `line` (mid: after part of that line was delivered)
  pos,      \* number of lines the scanner has handed out
  cur,      \* kind of the token being processed, "partial" for the rest of a line cut by a read error, or None
  out,      \* Seq(Nat)      indexes of the input lines whose redaction has been written completely, in order
  tail,     \* index of the line of which only a part reached the output (short write), or 0
  nwrites,  \* number of Write calls issued
  barCur,   \* progress bar counter
  rdHit,    \* the read error has been delivered to the scanner (it surfaces after the buffered tokens)
  faulted,  \* history: some injected fault has actually happened
  status,   \* "running" | "ok" | "failed"
  cause     \* "none" | "write" | "read" | "toolong"

envVars == <<input, finalNL, barOn, wr, rd>>
vars == <<input, finalNL, barOn, wr, rd, pos, cur, out, tail, nwrites, barCur, rdHit, faulted, status, cause>>

NLines == Len(input)
\* countLines (main.go) counts the newline bytes of the file
BarMax == IF NLines = 0 THEN 0 ELSE IF finalNL THEN NLines ELSE NLines - 1
\* progressbar.Add(1): an error (ignored) when max = 0, saturates at max
BarAdd == IF barOn /\ BarMax > 0 /\ barCur < BarMax THEN barCur + 1 ELSE barCur
AtMax  == barOn /\ barCur = BarMax

ObjIdx(n) == SelectSeq([i \in 1..n |-> i], LAMBDA i : input[i] \in ObjKinds)

TypeOK ==
  /\ input \in Seq(Kinds) /\ finalNL \in BOOLEAN /\ barOn \in BOOLEAN
  /\ wr.kind \in {"none", "err", "once", "short", "shortonce"} /\ wr.k \in Nat
  /\ rd.on \in BOOLEAN /\ rd.mid \in BOOLEAN /\ rd.line \in 1..(NLines + 1)
  /\ pos \in 0..NLines /\ cur \in Kinds \cup {None, "partial"}
  /\ status \in {"running", "ok", "failed"} /\ cause \in {"none", "write", "read", "toolong"}

EnvOK ==
  /\ (NLines = 0 => ~finalNL)
  \* a last line that is blank and not newline-terminated exists only as a lone CR ("a\n\r"): the scanner drops the CR and
  \* yields "" while the bar is already full - the one way into SkipBlankAtMax
  /\ (rd.on /\ rd.mid => rd.line <= NLines /\ input[rd.line] \notin {BlankKind, LongKind})
  /\ (~rd.on => rd.line = 1 /\ ~rd.mid)
  /\ (wr.kind = "none" => wr.k = 0) /\ (wr.kind # "none" => wr.k >= 1)

StreamInit ==
  /\ EnvOK
  /\ pos = 0 /\ cur = None /\ out = <<>> /\ tail = 0 /\ nwrites = 0 /\ barCur = 0
  /\ rdHit = FALSE /\ faulted = FALSE /\ status = "running" /\ cause = "none"

RdPendingAt(i) == rd.on /\ rd.line = i

\* scanner.Scan() = true with a complete line
ScanLine ==
  /\ status = "running" /\ cur = None /\ pos < NLines
  /\ ~rdHit /\ ~RdPendingAt(pos + 1) /\ input[pos + 1] # LongKind
  /\ cur' = input[pos + 1] /\ pos' = pos + 1
  /\ UNCHANGED <<envVars, out, tail, nwrites, barCur, rdHit, faulted, status, cause>>

\* the read error arrives in the middle of a line: bufio.Scanner hands the rest of its buffer out as a last token
ScanPartial ==
  /\ status = "running" /\ cur = None /\ pos < NLines
  /\ RdPendingAt(pos + 1) /\ rd.mid /\ ~rdHit
  /\ cur' = "partial" /\ pos' = pos + 1 /\ rdHit' = TRUE /\ faulted' = TRUE
  /\ UNCHANGED <<envVars, out, tail, nwrites, barCur, status, cause>>

\* scanner.Scan() = false, scanner.Err() # nil
ScanError ==
  /\ status = "running" /\ cur = None
  /\ \/ rdHit
     \/ RdPendingAt(pos + 1) /\ ~rd.mid
  /\ status' = "failed" /\ cause' = "read" /\ faulted' = TRUE
  /\ UNCHANGED <<envVars, pos, cur, out, tail, nwrites, barCur, rdHit>>

\* bufio.ErrTooLong: the line is neither truncated nor passed through, the run stops with an error
TooLong ==
  /\ status = "running" /\ cur = None /\ pos < NLines
  /\ ~rdHit /\ ~RdPendingAt(pos + 1) /\ input[pos + 1] = LongKind
  /\ status' = "failed" /\ cause' = "toolong"
  /\ UNCHANGED <<envVars, pos, cur, out, tail, nwrites, barCur, rdHit, faulted>>

\* reader.go:76 - an empty line while the bar is full only ticks the bar
SkipBlankAtMax ==
  /\ status = "running" /\ cur = BlankKind /\ AtMax
  /\ cur' = None /\ barCur' = BarAdd
  /\ UNCHANGED <<envVars, pos, out, tail, nwrites, rdHit, faulted, status, cause>>

\* RedactMongoLog returns an error: not JSON, not an object, cut short, trailing data
ParseFail ==
  /\ status = "running"
  /\ \/ cur \in JunkKinds \cup {"partial"}
     \/ cur = BlankKind /\ ~AtMax
  /\ cur' = None /\ barCur' = BarAdd
  /\ UNCHANGED <<envVars, pos, out, tail, nwrites, rdHit, faulted, status, cause>>

WriteFails == wr.kind # "none" /\ (IF wr.kind \in {"once", "shortonce"} THEN nwrites + 1 = wr.k ELSE nwrites + 1 >= wr.k)

Emit ==
  /\ status = "running" /\ cur \in ObjKinds /\ ~WriteFails
  /\ out' = Append(out, pos) /\ nwrites' = nwrites + 1
  /\ cur' = None /\ barCur' = BarAdd
  /\ UNCHANGED <<envVars, pos, tail, rdHit, faulted, status, cause>>

EmitWriteFail ==
  /\ status = "running" /\ cur \in ObjKinds /\ WriteFails
  /\ nwrites' = nwrites + 1
  /\ tail' = IF wr.kind \in {"short", "shortonce"} /\ nwrites + 1 = wr.k THEN pos ELSE 0
  /\ status' = "failed" /\ cause' = "write" /\ faulted' = TRUE
  /\ UNCHANGED <<envVars, pos, cur, out, barCur, rdHit>>

Eof ==
  /\ status = "running" /\ cur = None /\ pos = NLines
  /\ ~rdHit /\ ~RdPendingAt(NLines + 1)
  /\ status' = "ok"
  /\ UNCHANGED <<envVars, pos, cur, out, tail, nwrites, barCur, rdHit, faulted, cause>>

StreamNext == ScanLine \/ ScanPartial \/ ScanError \/ TooLong \/ SkipBlankAtMax \/ ParseFail \/ Emit \/ EmitWriteFail \/ Eof

StreamSpec == StreamInit /\ [][StreamNext]_vars /\ WF_vars(StreamNext)

-----------------------------------------------------------------------------
(* Properties *)

Done == IF cur = None THEN pos ELSE pos - 1      \* lines completely dealt with

\* C06: the output is the order-preserving map of the object lines seen so far; nothing else is ever written
\* (a line cut short by a read error is not an object line any more)
Cut(i)       == rdHit /\ rd.mid /\ i = rd.line
SeenObjIdx(n) == SelectSeq([i \in 1..n |-> i], LAMBDA i : input[i] \in ObjKinds /\ ~Cut(i))
OutputIsMap  == (cause # "write") => out = SeenObjIdx(Done)
NoRawCopy    == \A j \in 1..Len(out) : input[out[j]] \in ObjKinds
AppendOnly   == [][IsPrefix(out, out')]_vars
OkIsComplete == status = "ok" => out = ObjIdx(NLines) /\ ~faulted /\ tail = 0

\* C07: the only content-dependent stop is the over-long line; every other line kind lets the scan go on
OnlyTooLongStops == status = "failed" /\ ~faulted => cause = "toolong" /\ input[pos + 1] = LongKind
LongNeverEmitted == \A j \in 1..Len(out) : input[out[j]] # LongKind

\* C08: a fault that happened is never followed by success; what was written is a prefix of the fault-free output
FailureReported   == faulted => status # "ok"
PrefixOfFaultFree == IsPrefix(out, ObjIdx(NLines)) /\ (tail # 0 => Len(out) < Len(ObjIdx(NLines)) /\ ObjIdx(NLines)[Len(out) + 1] = tail)
Terminates        == <>(status # "running")

\* growth: progress accounting - a complete run over a newline-terminated file fills the bar exactly
BarBounded == barCur <= BarMax
BarExact   == status = "ok" /\ barOn /\ finalNL => barCur = BarMax
=============================================================================
