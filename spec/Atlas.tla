-------------------------------- MODULE Atlas --------------------------------
(***************************************************************************)
(* L2 - Atlas mode: src/atlas.go (getAtlasClusterInfo, DownloadClusterLogs,*)
(* downloadClusterLogsForHost, DeleteClusterLogs) and the Atlas branch of  *)
(* main.go (per-file redaction loop, clean-up on every exit path).         *)
(* One action per request / file-system step.  The server's behaviour      *)
(* (authentication mode, one scripted fault at the cluster request or at   *)
(* host k, or a fault that shows only when file k is redacted) is the      *)
(* environment, chosen in Init.  Hosts are 1..n in connection-string       *)
(* order; target 0 is the cluster description.                             *)
(***************************************************************************)
EXTENDS Integers, Sequences, FiniteSets

AuthModes  == {"digest", "none", "basic", "reject", "digest_unknown", "digest_bare"}
\* fault kinds at a request: HTTP status, connection reset before the headers, body cut short;
\* fault kinds at redaction of file k: payload is not gzip, payload holds an over-long line, gzip stream cut (valid download of a
\* damaged archive), <out>.<k> cannot be created
ReqFaults  == {"status", "reset", "cut", "notmp"}          \* notmp: the answer is fine, but no file can be created in the temp directory
FileFaults == {"notgzip", "longline", "gzcut", "outdir", "outfull"}     \* outfull: <out>.<k> can be created but not written
NoFault    == [at |-> 0, kind |-> "none"]

VARIABLES
  n,        \* number of hosts
  auth,     \* server's authentication behaviour
  fault,    \* [at |-> 0..n (0 = cluster request), kind]  or NoFault with kind "none"
  cli,      \* TRUE: the whole CLI run; FALSE: library level (DownloadClusterLogs then DeleteClusterLogs)
  keyOk,    \* CLI with --encrypt: the key file can be loaded / created (the key stage of main.go precedes every request)
  pc,       \* program counter
  cur,      \* target of the request in flight (0 = cluster, i = host i) / index of the file being redacted
  reqLog,   \* Seq([t, authed]) - every request the server has seen, in order
  tmp,      \* set of hosts whose raw log is in the temp directory (complete or partial)
  reg,      \* Seq of hosts: logFiles, the downloads registered for clean-up and redaction
  outs,     \* set of indexes i for which <out>.<i> was written completely
  touched,  \* set of indexes i for which <out>.<i> was created
  retried,  \* the transport has re-sent the request in flight once (connection reset on a reused connection)
  exit      \* -1 running, 0 / 1 exit status (library: 0 = nil error, 1 = error)

envVars == <<n, auth, fault, cli, keyOk>>
vars == <<n, auth, fault, cli, keyOk, pc, cur, reqLog, tmp, reg, outs, touched, retried, exit>>

Hosts == 1..n

AtlasInit ==
  /\ pc = (IF keyOk THEN "send" ELSE "keyfail") /\ (~keyOk => cli) /\ cur = 0 /\ reqLog = <<>> /\ tmp = {} /\ reg = <<>> /\ outs = {} /\ touched = {} /\ retried = FALSE /\ exit = -1
  /\ fault.at \in 0..n
  /\ (fault.kind = "none" => fault.at = 0)
  /\ (fault.kind \in FileFaults \cup {"cut", "notmp"} => fault.at >= 1)
  /\ (fault.kind \in FileFaults => cli)

\* the key file of --encrypt is unusable: the run ends before anything is requested or downloaded
KeyFail == /\ pc = "keyfail" /\ exit' = 1 /\ pc' = "done"
           /\ UNCHANGED <<envVars, cur, reqLog, tmp, reg, outs, touched, retried>>

Log(t, a) == reqLog' = Append(reqLog, [t |-> t, authed |-> a])
FaultHere(kinds) == fault.at = cur /\ fault.kind \in kinds

\* ---- one HTTP exchange of digest.Transport: first without credentials ----
SendUnauth ==
  /\ pc = "send" /\ Log(cur, FALSE)
  /\ pc' = CASE auth = "none" -> "response"                          \* no challenge: the server answers at once
             [] auth \in {"basic", "digest_unknown"} -> "dlfail"     \* not a usable Digest challenge: the request fails, nothing more is sent
             [] auth = "digest_bare" -> "crash"                       \* a directive without '=': the digest library's parser indexes past the end
             [] OTHER -> "challenged"
  /\ UNCHANGED <<envVars, cur, tmp, reg, outs, touched, retried, exit>>

\* deviation named as an action: the process dies (Go panic, exit status 2) inside the transport, at the first request of the run - nothing
\* has been downloaded yet, no clean-up runs, no credential material has been computed
ParserCrash ==
  /\ pc = "crash" /\ exit' = 2 /\ pc' = "done"
  /\ UNCHANGED <<envVars, cur, reqLog, tmp, reg, outs, touched, retried>>

\* ... then the digest response to the challenge (the only place where the private key is used)
SendAuth ==
  /\ pc = "challenged" /\ Log(cur, TRUE)
  /\ pc' = IF auth = "reject" THEN "dlfail" ELSE "response"
  /\ UNCHANGED <<envVars, cur, tmp, reg, outs, touched, retried, exit>>

\* net/http re-sends an idempotent request once when a reused connection is reset before any response byte
TransportRetry ==
  /\ pc = "response" /\ FaultHere({"reset"}) /\ ~retried
  /\ Log(cur, auth # "none") /\ retried' = TRUE
  /\ UNCHANGED <<envVars, pc, cur, tmp, reg, outs, touched, exit>>

\* the (authenticated) response arrives
Response ==
  /\ pc = "response"
  /\ IF FaultHere({"status", "reset"}) THEN pc' = "dlfail" /\ UNCHANGED <<cur, tmp>>
     ELSE IF cur = 0 THEN pc' = "send" /\ cur' = 1 /\ UNCHANGED tmp             \* cluster description parsed: hosts in order
     ELSE IF FaultHere({"notmp"}) THEN pc' = "dlfail" /\ UNCHANGED <<cur, tmp>>   \* os.CreateTemp fails: nothing was created
     ELSE pc' = "copy" /\ tmp' = tmp \cup {cur} /\ UNCHANGED cur                 \* os.CreateTemp
  /\ retried' = FALSE
  /\ UNCHANGED <<envVars, reqLog, reg, outs, touched, exit>>

\* io.Copy of the body into the temp file
CopyBody ==
  /\ pc = "copy"
  /\ IF FaultHere({"cut"})
     THEN /\ tmp' = tmp \ {cur} /\ pc' = "dlfail" /\ UNCHANGED <<reg, cur>>     \* the partial file is removed (fix c258e19)
     ELSE /\ reg' = Append(reg, cur) /\ UNCHANGED tmp
          /\ IF cur < n THEN pc' = "send" /\ cur' = cur + 1 ELSE pc' = "downloaded" /\ cur' = 0
  /\ UNCHANGED <<envVars, reqLog, outs, touched, retried, exit>>

Elems(s) == {s[i] : i \in 1..Len(s)}

\* a failed host: DownloadClusterLogs deletes what it has registered so far and returns the error; main exits 1
DownloadFail ==
  /\ pc = "dlfail"
  /\ tmp' = tmp \ Elems(reg) /\ reg' = <<>> /\ exit' = 1 /\ pc' = "done"
  /\ UNCHANGED <<envVars, cur, reqLog, outs, touched, retried>>

\* library level: the caller deletes the files; CLI: the redaction loop starts
Downloaded ==
  /\ pc = "downloaded"
  /\ IF cli THEN pc' = "createOut" /\ cur' = 1 /\ UNCHANGED <<tmp, exit>>
     ELSE tmp' = tmp \ Elems(reg) /\ exit' = 0 /\ pc' = "done" /\ UNCHANGED cur
  /\ UNCHANGED <<envVars, reqLog, reg, outs, touched, retried>>

\* main.go loop over files[i]: os.Create(<out>.<i>)
CreateOut ==
  /\ pc = "createOut"
  /\ IF fault.at = cur /\ fault.kind = "outdir"
     THEN pc' = "cleanupFail" /\ UNCHANGED touched
     ELSE pc' = "redact" /\ touched' = touched \cup {cur}
  /\ UNCHANGED <<envVars, cur, reqLog, tmp, reg, outs, retried, exit>>

\* countLines + ProcessMongoLogFile
RedactFile ==
  /\ pc = "redact"
  /\ IF fault.at = cur /\ fault.kind \in {"notgzip", "longline", "gzcut", "outfull"}
     THEN pc' = "cleanupFail" /\ UNCHANGED <<outs, cur>>
     ELSE /\ outs' = outs \cup {cur}
          /\ IF cur < Len(reg) THEN pc' = "createOut" /\ cur' = cur + 1 ELSE pc' = "cleanupOk" /\ UNCHANGED cur
  /\ UNCHANGED <<envVars, reqLog, tmp, reg, touched, retried, exit>>

\* cleanUpDownloadedLogs() on a failure path, then os.Exit(1) (fix 1341ee9)
CleanupFail == /\ pc = "cleanupFail" /\ tmp' = tmp \ Elems(reg) /\ exit' = 1 /\ pc' = "done"
               /\ UNCHANGED <<envVars, cur, reqLog, reg, outs, touched, retried>>
CleanupOk   == /\ pc = "cleanupOk" /\ tmp' = tmp \ Elems(reg) /\ exit' = 0 /\ pc' = "done"
               /\ UNCHANGED <<envVars, cur, reqLog, reg, outs, touched, retried>>

AtlasNext == KeyFail \/ SendUnauth \/ ParserCrash \/ SendAuth \/ TransportRetry \/ Response \/ CopyBody \/ DownloadFail \/ Downloaded
             \/ CreateOut \/ RedactFile \/ CleanupFail \/ CleanupOk
AtlasSpec == AtlasInit /\ [][AtlasNext]_vars /\ WF_vars(AtlasNext)

-----------------------------------------------------------------------------
Done == pc = "done"

\* C17: whenever the tool has returned or exited, no downloaded log - complete or partial - is left
NoTempAtExit == Done => tmp = {}

\* C16: the request log is the cluster round followed by one round per host, in order; a round is an optional
\* unauthenticated request followed by exactly one authenticated one (a transport retry after a reset may repeat it)
Targets == [i \in 1..Len(reqLog) |-> reqLog[i].t]
Monotone == \A i, j \in 1..Len(reqLog) : i < j => reqLog[i].t <= reqLog[j].t
AuthedCount(t) == Cardinality({i \in 1..Len(reqLog) : reqLog[i].t = t /\ reqLog[i].authed})
UnauthCount(t) == Cardinality({i \in 1..Len(reqLog) : reqLog[i].t = t /\ ~reqLog[i].authed})
RequestsExact ==
  /\ Monotone
  /\ \A t \in 0..n : UnauthCount(t) <= (IF auth = "none" /\ fault.at = t /\ fault.kind = "reset" THEN 2 ELSE 1)
  /\ \A t \in 0..n : AuthedCount(t) <= (IF fault.at = t /\ fault.kind = "reset" THEN 2 ELSE 1)
  /\ (Done /\ exit = 0 /\ auth # "none" => \A t \in 0..n : AuthedCount(t) = 1)
  /\ (Done /\ exit = 0 /\ auth = "none" => \A t \in 0..n : UnauthCount(t) = 1 /\ AuthedCount(t) = 0)
\* <out>.<i> is the redaction of host i's log: file i of logFiles is host i+... (indexes are positions in connection-string order)
OutIndexIsHost == \A i \in outs : i <= Len(reg) /\ reg[i] = i
SuccessIsComplete == Done /\ exit = 0 /\ cli => outs = Hosts /\ Len(reg) = n

\* C20: credential material goes out only inside the response to a Digest challenge for that very request
NoChallengeNoCredentials ==
  \A i \in 1..Len(reqLog) : reqLog[i].authed =>
      /\ auth \in {"digest", "reject"}
      /\ \E j \in 1..(i - 1) : reqLog[j].t = reqLog[i].t /\ ~reqLog[j].authed
\* a fault never turns into success
FaultMeansFailure == Done /\ (~keyOk \/ (fault.kind # "none" /\ fault.kind # "reset")) => exit = (IF keyOk /\ auth = "digest_bare" THEN 2 ELSE 1)
\* the parser crash can only happen before anything was downloaded
CrashIsEarly == Done /\ exit = 2 => tmp = {} /\ reg = <<>> /\ outs = {} /\ Len(reqLog) = 1
\* nothing is requested, let alone downloaded, before the key stage has succeeded
KeyStageFirst == ~keyOk => reqLog = <<>> /\ tmp = {}
Terminates == <>Done
=============================================================================
