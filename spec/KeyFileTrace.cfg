SPECIFICATION TraceSpec
CONSTRAINT HighWater
INVARIANT KeyBeforeCiphertext
INVARIANT UnusableRefused
POSTCONDITION Post
CHECK_DEADLOCK FALSE
