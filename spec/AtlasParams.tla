---- MODULE AtlasParams ----
MaxHosts == 3
AAuth == {"digest", "none", "basic", "reject", "digest_unknown"}
AKinds == {"none", "status", "reset", "cut", "notmp", "notgzip", "longline", "gzcut", "outdir", "outfull"}
ACli == {TRUE, FALSE}
====
