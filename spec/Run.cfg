SPECIFICATION Spec
INVARIANT RejectedTouchesNothing
INVARIANT KeyBeforeAnyLine
INVARIANT UnusableKeyNoProcessing
INVARIANT SuccessMeansAllStages
INVARIANT StageOrder
PROPERTY Terminates
CHECK_DEADLOCK FALSE
