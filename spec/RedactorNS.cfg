INIT Init
NEXT Next
INVARIANT EmitInv
CHECK_DEADLOCK FALSE
