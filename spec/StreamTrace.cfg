SPECIFICATION TraceSpec
CONSTRAINT HighWater
INVARIANT OutputIsMap
INVARIANT NoRawCopy
INVARIANT OkIsComplete
INVARIANT OnlyTooLongStops
INVARIANT LongNeverEmitted
INVARIANT FailureReported
INVARIANT PrefixOfFaultFree
INVARIANT BarBounded
POSTCONDITION Post
CHECK_DEADLOCK FALSE
