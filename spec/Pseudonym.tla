------------------------------ MODULE Pseudonym ------------------------------
(***************************************************************************)
(* L4 - the pseudonym function (src/helpers.go HashName) and its side      *)
(* table (RedactedFieldMapping), at string level.  Names are sequences     *)
(* over a small alphabet that contains the two characters the function     *)
(* treats specially ("$" and ".").  The hash is abstract: P(part) is an    *)
(* injective tagging of the component (the axiom that truncated SHA-256 is *)
(* collision-free on the dictionary is tested on the real function by the  *)
(* harness, not decided here).  The state machine is a process calling the *)
(* function repeatedly: the side table is written on every call and must   *)
(* never be read for a result.                                             *)
(***************************************************************************)
EXTENDS Naturals, Sequences, FiniteSets

CONSTANTS Alphabet, MaxLen, MaxCalls
VARIABLES hist,   \* Seq of [name, result]: the calls made by this process so far
          cache   \* the side table: component -> pseudonym (write-only)

vars == <<hist, cache>>

Names == UNION {[1..m -> Alphabet] : m \in 0..MaxLen}

\* strings.TrimLeft(field, "$")
RECURSIVE TrimDollar(_)
TrimDollar(s) == IF s # <<>> /\ Head(s) = "$" THEN TrimDollar(Tail(s)) ELSE s

\* strings.Split(s, "."): always at least one (possibly empty) component
RECURSIVE SplitDot(_, _)
SplitDot(s, acc) ==
  IF s = <<>> THEN <<acc>>
  ELSE IF Head(s) = "." THEN <<acc>> \o SplitDot(Tail(s), <<>>)
  ELSE SplitDot(Tail(s), Append(acc, Head(s)))
Parts(name) == SplitDot(TrimDollar(name), <<>>)

\* the abstract pseudonym of one component: "<replacement>_<16 hex digits of the component's hash>"
P(part) == <<"P", part>>

HashName(name) == [i \in 1..Len(Parts(name)) |-> P(Parts(name)[i])]

Init == hist = <<>> /\ cache = <<>>

Call(name) ==
  /\ Len(hist) < MaxCalls
  /\ hist' = Append(hist, [name |-> name, result |-> HashName(name)])
  /\ cache' = cache \o [i \in 1..Len(Parts(name)) |-> <<Parts(name)[i], P(Parts(name)[i])>>]
Next == \E nm \in Names : Call(nm)
Spec == Init /\ [][Next]_vars

-----------------------------------------------------------------------------
NumDots(s) == Cardinality({i \in 1..Len(s) : s[i] = "."})
\* dotted paths are mapped component by component: depth and separators are kept
ComponentWise == \A i \in 1..Len(hist) : Len(hist[i].result) = NumDots(TrimDollar(hist[i].name)) + 1
\* a leading "$" does not change the result
DollarIrrelevant == \A i \in 1..Len(hist) : hist[i].result = HashName(TrimDollar(hist[i].name))
\* the result depends on the name only: equal names give equal results whatever was called before ...
HistoryFree == \A i, j \in 1..Len(hist) : hist[i].name = hist[j].name => hist[i].result = hist[j].result
\* ... and component pseudonyms are a bijection between components and pseudonyms
Bijective == \A i, j \in 1..Len(hist) : \A a \in 1..Len(hist[i].result), b \in 1..Len(hist[j].result) :
               (hist[i].result[a] = hist[j].result[b]) <=> (Parts(hist[i].name)[a] = Parts(hist[j].name)[b])
=============================================================================
