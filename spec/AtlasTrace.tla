------------------------------ MODULE AtlasTrace -----------------------------
(***************************************************************************)
(* Trace validation for Atlas: one trace per real run (the unmodified CLI  *)
(* behind HTTPS_PROXY, or the library entry points in-process) recorded on *)
(* the far side of the network by lib/fakeatlas.py:                        *)
(*   Init(n, auth, fault, cli)                                             *)
(*   Req(t, authed, tmp)   one per request the server saw; tmp = number of *)
(*                         files in the run's private temp directory while *)
(*                         the client is blocked waiting for the reply     *)
(*   End(exit, tmp, outs)  exit status, temp files left, outputs complete  *)
(* Everything between two requests (temp file creation, body copy,         *)
(* registration, clean-up, redaction) is a silent step.                    *)
(***************************************************************************)
EXTENDS Atlas, Json, TLC

VARIABLE l
TraceLog == ndJsonDeserialize("trace.ndjson")
NT  == Len(TraceLog)
Rec == TraceLog[l]
IsEv(e) == l <= NT /\ Rec.ev = e
ASSUME TLCSet(1, 1)

TraceInit == /\ l = 1 /\ n = 1 /\ auth = "digest" /\ fault = NoFault /\ cli = TRUE /\ keyOk = TRUE /\ pc = "done" /\ cur = 0 /\ reqLog = <<>>
             /\ tmp = {} /\ reg = <<>> /\ outs = {} /\ touched = {} /\ retried = FALSE /\ exit = 1

TraceStart ==
  /\ IsEv("Init") /\ pc = "done"
  /\ n' = Rec.n /\ auth' = Rec.auth /\ fault' = Rec.fault /\ cli' = Rec.cli /\ keyOk' = Rec.keyOk
  /\ pc' = (IF Rec.keyOk THEN "send" ELSE "keyfail") /\ cur' = 0 /\ reqLog' = <<>> /\ tmp' = {} /\ reg' = <<>> /\ outs' = {} /\ touched' = {} /\ retried' = FALSE /\ exit' = -1
  /\ l' = l + 1

Silent == /\ (Response \/ CopyBody \/ Downloaded \/ CreateOut \/ RedactFile) /\ UNCHANGED l

TraceReq ==
  /\ IsEv("Req") /\ l' = l + 1
  /\ (SendUnauth \/ SendAuth \/ TransportRetry)
  /\ reqLog'[Len(reqLog')] = [t |-> Rec.t, authed |-> Rec.authed]
  /\ Cardinality(tmp) = Rec.tmp

TraceEnd ==
  /\ IsEv("End") /\ l' = l + 1
  /\ (KeyFail \/ ParserCrash \/ DownloadFail \/ CleanupFail \/ CleanupOk \/ (Downloaded /\ ~cli))
  /\ pc' = "done" /\ exit' = Rec.exit /\ Cardinality(tmp') = Rec.tmp
  /\ Cardinality(outs') = Rec.outs

TraceNext == TraceStart \/ Silent \/ TraceReq \/ TraceEnd
TraceSpec == TraceInit /\ [][TraceNext]_<<vars, l>>
HighWater == TLCSet(1, IF l > TLCGet(1) THEN l ELSE TLCGet(1))
Post == PrintT(<<"HIGHWATER", TLCGet(1), NT>>)
=============================================================================
