SPECIFICATION Spec
INVARIANT NoTempAtExit
INVARIANT RequestsExact
INVARIANT OutIndexIsHost
INVARIANT SuccessIsComplete
INVARIANT NoChallengeNoCredentials
INVARIANT FaultMeansFailure
INVARIANT CrashIsEarly
INVARIANT KeyStageFirst
INVARIANT EmitInv
PROPERTY Terminates
CHECK_DEADLOCK FALSE
