---------------------------- MODULE RedactorFree -----------------------------
(***************************************************************************)
(* Free-mode generator: ANY key of the vocabulary (operator tables, the    *)
(* operators found in real logs that the tables do not know, user field    *)
(* names) over ANY key or array, ending in any leaf kind, in every zone    *)
(* slot of a command.  It ignores what MongoDB would accept: it is the     *)
(* generator for the properties that quantify over arbitrary JSON trees    *)
(* (C03 shape, C04 confinement, C07 no crash, C19 fixed point).            *)
(* Every state is a complete line and is emitted.                          *)
(***************************************************************************)
EXTENDS RedactorEnv

VARIABLES slot, path, leaf

UserKeys == {"uf1", "a.b", "zzsecretA"}
WildKeys == {"$sum", "$concat", "$literal", "$numberLong", "$numberDecimal", "$regularExpression", "$timestamp", "$uuid",
             "$options", "$language", "$comment", "$geometry", "$centerSphere", "$maxDistance", "$toString", "$ifNull",
             "$let", "$switch", "$dateToString", "$mergeObjects", "$first", "$avg", "$function", "$getField", "$setField",
             "vars", "branches", "case", "format", "pattern", "t", "i", "q", "u", "multi", "upsert", "arrayFilters", "limit",
             "collation", "hint", "$hint", "$or", "$search", "", "__proto__"}
Keys == IF FreeKeys = {} THEN Vocabulary \cup UserKeys \cup WildKeys ELSE FreeKeys
Steps == Keys \cup {"[]"}

LeafKinds == ScalarKinds \cup {"date", "oid", "b64", "eo", "ea"}
LeafTree(k) == CASE k = "eo" -> Obj(<< >>) [] k = "ea" -> Arr(<< >>) [] OTHER -> Leaf(k, "any")

Slots == IF FreeSlots = {} THEN {"filter", "pipeline", "updateDoc", "updatePipe", "updates", "deletes", "documents", "sort", "query"}
         ELSE FreeSlots

RECURSIVE Build(_, _)
Build(p, l) == IF p = << >> THEN l
               ELSE IF Head(p) = "[]" THEN Arr(<< Build(Tail(p), l), Leaf("plain", "any") >>)
               ELSE Obj(<< <<Head(p), Build(Tail(p), l)>> >>)

SlotKey(s) == CASE s \in {"updateDoc", "updatePipe"} -> "update" [] OTHER -> s
SlotVal(s, t) ==
  CASE s \in {"filter", "updateDoc", "sort", "query"} -> t
    [] s \in {"pipeline", "updatePipe", "documents"} -> Arr(<<t>>)
    [] s = "updates" -> Arr(<< Obj(<< <<"q", Obj(<< <<"uf1", Leaf("plain", "any")>> >>)>>, <<"u", t>>, <<"multi", Bool("free")>> >>) >>)
    [] s = "deletes" -> Arr(<< Obj(<< <<"q", t>>, <<"limit", Num("free")>> >>) >>)

CaseLine == Line(DefaultEnv, Cmd(VerbFor(SlotKey(slot)), SlotKey(slot), SlotVal(slot, Build(path, LeafTree(leaf)))))

\* the root states (empty path) are not cases; TLC computes initial states on one thread, steps on all
Init == /\ slot \in Slots
        /\ path = << >>
        /\ leaf = "null"
Next == /\ Len(path) < FreeDepth
        /\ \E k \in (IF path = << >> THEN Keys ELSE Steps) : path' = Append(path, k)
        /\ leaf' \in LeafKinds
        /\ UNCHANGED slot

EmitInv == path # << >> => EmitCase("free", CaseLine)
IdemInv == path # << >> => IdempotentAll(CaseLine)
=============================================================================
