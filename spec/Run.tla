--------------------------------- MODULE Run ---------------------------------
(***************************************************************************)
(* Composition of the run-level modules for one `anonymongo redact` run    *)
(* that does not use Atlas:                                                *)
(*     Cli (validation chain, side effects in code order)                  *)
(*       -> KeyFile (the key stage, when --encrypt)                        *)
(*       -> Stream  (the scan loop over the input)                         *)
(* Each module keeps its own variables; a phase variable hands control     *)
(* over exactly where main.go does (Cli.CreateOutput = KeyFile.CreateOut,  *)
(* Cli.KeyStage = KeyFile.StatKey .. ReadKey / WriteKey, Cli.Go = the      *)
(* Stream actions).  The point of the composition are the cross-module     *)
(* invariants at the end: properties none of the modules can state alone.  *)
(***************************************************************************)
EXTENDS Naturals, Sequences, FiniteSets

VARIABLES
  \* Cli
  sw, pc, effects, verdict, reason,
  \* KeyFile
  path, out, inUse, kpc, run, exit, fresh, hist, lines, kinput, env, before,
  \* Stream
  input, finalNL, barOn, wr, rd, pos, cur, sout, tail, nwrites, barCur, rdHit, faulted, status, cause,
  phase          \* "cli" | "key" | "stream" | "done"

C == INSTANCE Cli
K == INSTANCE KeyFile WITH pc <- kpc, input <- kinput
S == INSTANCE Stream WITH out <- sout

cliVars == <<sw, pc, effects, verdict, reason>>
keyVars == <<path, out, inUse, kpc, run, exit, fresh, hist, lines, kinput, env, before>>
strVars == <<input, finalNL, barOn, wr, rd, pos, cur, sout, tail, nwrites, barCur, rdHit, faulted, status, cause>>
vars == <<cliVars, keyVars, strVars, phase>>

NoWr == [k |-> 0, kind |-> "none"]
NoRd == [line |-> 1, mid |-> FALSE, on |-> FALSE]

Init ==
  /\ C!CliInit
  /\ ~(sw["proj"] \/ sw["cluster"] \/ sw["pub"] \/ sw["priv"] \/ sw["start"] \/ sw["end"])     \* non-Atlas jobs
  /\ \E k \in K!Kinds : K!KeyFileInit(k)
  /\ kinput = "good"
  /\ input \in {<<>>, <<"cmd">>, <<"cmd", "txt", "oth">>, <<"blank", "cmd">>} /\ finalNL = (input # <<>>)
  /\ barOn = (sw["file"] /\ sw["out"])                      \* main.go: a bar exists for file input with --outputFile
  /\ wr \in {NoWr, [k |-> 1, kind |-> "err"]} /\ rd = NoRd
  /\ S!StreamInit
  /\ phase = "cli"

\* the validation chain and os.Create(outputFile)
CliStep ==
  /\ phase = "cli"
  /\ \/ \E s \in C!ValidationSteps : C!Check(s)
     \/ C!CreateOutput
  /\ phase' = IF verdict' = "rejected" THEN "done" ELSE IF pc' = "keyStage" THEN "key" ELSE "cli"
  /\ UNCHANGED <<keyVars, strVars>>

\* the key stage: skipped without --encrypt; otherwise the KeyFile actions up to "ready" or a refusal
KeySkip ==
  /\ phase = "key" /\ ~sw["enc"] /\ C!KeyStage /\ phase' = "stream" /\ UNCHANGED <<keyVars, strVars>>
KeyStep ==
  /\ phase = "key" /\ sw["enc"] /\ kpc \in {"start", "outCreated", "absent", "exists", "generated"}
  /\ (K!CreateOut \/ K!StatKey \/ K!Generate \/ K!WriteKey \/ K!ReadKey)
  /\ UNCHANGED <<cliVars, strVars, phase>>
KeyDone ==
  /\ phase = "key" /\ sw["enc"] /\ kpc \in {"ready", "exited"}
  /\ IF kpc = "ready" THEN C!KeyStage /\ phase' = "stream"
     ELSE UNCHANGED cliVars /\ phase' = "done"              \* os.Exit(1) inside the key stage
  /\ UNCHANGED <<keyVars, strVars>>

\* processing
StreamStep ==
  /\ phase = "stream" /\ pc = "go" /\ status = "running" /\ S!StreamNext
  /\ UNCHANGED <<cliVars, keyVars, phase>>
Finish ==
  /\ phase = "stream" /\ status # "running" /\ C!Go /\ phase' = "done"
  /\ UNCHANGED <<keyVars, strVars>>

Next == CliStep \/ KeySkip \/ KeyStep \/ KeyDone \/ StreamStep \/ Finish
Spec == Init /\ [][Next]_vars /\ WF_vars(Next)

-----------------------------------------------------------------------------
ExitStatus == IF verdict = "rejected" THEN 1
              ELSE IF sw["enc"] /\ kpc = "exited" /\ exit # 0 THEN 1
              ELSE IF status = "failed" THEN 1 ELSE 0

\* a rejected job has touched neither the key path nor the output nor the input
RejectedTouchesNothing == verdict = "rejected" => path = before /\ kpc = "start" /\ pos = 0 /\ sout = <<>> /\ effects = <<>>
\* not one output line before the key that encrypts it is on disk (when --encrypt)
KeyBeforeAnyLine == sw["enc"] /\ sout # <<>> => path.kind \in K!ValidKinds /\ inUse = path.key
\* an unusable key file means: no line is processed at all
UnusableKeyNoProcessing == sw["enc"] /\ before.kind \in K!UnusableKinds \cup {"noparent"} => pos = 0 /\ sout = <<>>
\* the exit status is 0 exactly when every stage succeeded
SuccessMeansAllStages == phase = "done" /\ ExitStatus = 0 => verdict = "accepted" /\ status = "ok" /\ (sw["enc"] => kpc = "ready")
\* the output is created before the key stage, the key stage precedes processing
StageOrder == (pos > 0 \/ sout # <<>>) => pc = "go" /\ (sw["out"] => Len(effects) >= 1 /\ effects[1] = "outCreated")
Terminates == <>(phase = "done")
=============================================================================
