SPECIFICATION Spec
CONSTANT W = 7
CONSTANT Times = {30, 50, 20000}
CONSTANT Nows = {100, 103}
CONSTANT MaxSteps = 5
INVARIANT GivenIsVerbatim
INVARIANT DefaultIsLastWeek
INVARIANT FirstCallIsPure
INVARIANT EmitInv
CHECK_DEADLOCK FALSE
