----------------------------- MODULE RedactorTW ------------------------------
(***************************************************************************)
(* Table-walk generator.  Every entry of every operator table, at every    *)
(* nesting depth, is the last step of at least one case for every leaf     *)
(* shape and every context in which the walkers can reach that table.      *)
(* A single flipped, removed or retyped table entry - however deep - is    *)
(* therefore one state of this (small) space.                              *)
(* Initial states fix (table, context); the first step picks a path, the   *)
(* second a leaf shape (TLC computes initial states on one thread, steps   *)
(* on all of them).  Complete cases (phase 2) are printed by EmitInv.      *)
(***************************************************************************)
EXTENDS RedactorEnv

VARIABLES table, ctx, path, shape, phase

\* all key paths of a table, every prefix included
RECURSIVE PathsOf(_)
PathsOf(tab) ==
  UNION { {<<k>>} \cup (IF tab.m[k].tag = "tab" THEN { <<k>> \o p : p \in PathsOf(tab.m[k]) } ELSE {})
          : k \in DOMAIN tab.m }

Tables == [core |-> CoreOperators, agg |-> AggregationOperators, search |-> SearchOperators,
           searchAgg |-> SearchAggregationOperators, mapDefs |-> OperatorMapDefs]

\* contexts in which the walkers reach a table
Contexts == [core      |-> {"filterTop", "filterField", "stage", "matchStage", "subPipe", "documents", "updatesU", "exprArr"},
             agg       |-> {"stage", "subPipe", "facetPipe", "updatePipe", "afterSearch"},
             search    |-> {"searchStage", "compoundMust", "embedded", "facetOperator", "vectorFilter"},
             searchAgg |-> {"stage", "facetPipe"},
             mapDefs   |-> {"facetDefs"}]

\* leaf shapes put under the last key
Shapes ==
     { <<"s", k>>      : k \in ScalarKinds }              \* scalar
  \cup { <<"as", k>>   : k \in ScalarKinds }              \* [scalar, "plain"]
  \cup { <<"sa", k>>   : k \in ScalarKinds }              \* ["plain", scalar]
  \cup { <<"os", k>>   : k \in ScalarKinds }              \* {uf: scalar}
  \cup { <<"aos", k>>  : k \in {"plain", "num", "dollar", "null"} }   \* [{uf: scalar}, {uf2: plain}]
  \cup { <<"aas", k>>  : k \in {"plain", "num", "null"} } \* [[scalar]]
  \cup { <<"aaos", k>> : k \in {"plain", "num"} }         \* [[{uf: scalar}]]
  \cup { <<"oas", k>>  : k \in {"plain", "num", "dollar"} }           \* {uf: [scalar]}
  \cup { <<"oos", k>>  : k \in {"plain", "num", "dollar"} }           \* {uf: {uf2: scalar}}
  \cup { <<"xdate", k>> : k \in {"date", "num", "null"} } \* {"$date": x}
  \cup { <<"xoid", k>>  : k \in {"oid", "num"} }          \* {"$oid": x}
  \cup { <<"xbin", k>>  : k \in {"b64", "num"} }          \* {"$binary": {base64: x, subType: "04"}}
  \cup { <<"eo", "null">>, <<"ea", "null">> }             \* {}  []
  \cup { <<"sao", k>> : k \in {"plain", "num", "dollar"} }            \* [scalar, {uf: plain}]   a bare operand before a document operand
  \cup { <<"saa", k>> : k \in {"plain", "num", "dollar"} }            \* [scalar, [plain], {uf2: scalar}]

\* C07: extended-JSON wrappers holding the wrong kind of value (any scalar, an array, a document), and $binary holding a
\* scalar or an array instead of a document.  Only generated when TWShapeKinds names them.
WrapShapes ==
     { <<"xdateS", k>> : k \in ScalarKinds } \cup { <<"xoidS", k>> : k \in ScalarKinds } \cup { <<"xbinB", k>> : k \in ScalarKinds }
  \cup { <<w, k>> : w \in {"xdateA", "xdateO", "xoidA", "xoidO", "xbinA", "xbinO", "xbinS", "xbinSA"}, k \in {"plain", "num", "null"} }
  \cup { <<"xdateNL", k>> : k \in {"plain", "num"} }   \* canonical extended JSON: {"$date": {"$numberLong": "..."}}

UF  == "uf1"
UF2 == "uf2"
L(k) == Leaf(k, "any")

ShapeTree(sh) ==
  LET k == sh[2] IN
  CASE sh[1] = "s"    -> L(k)
    [] sh[1] = "as"   -> Arr(<<L(k), L("plain")>>)
    [] sh[1] = "sa"   -> Arr(<<L("plain"), L(k)>>)
    [] sh[1] = "os"   -> Obj(<< <<UF, L(k)>> >>)
    [] sh[1] = "aos"  -> Arr(<< Obj(<< <<UF, L(k)>> >>), Obj(<< <<UF2, L("plain")>> >>) >>)
    [] sh[1] = "aas"  -> Arr(<< Arr(<<L(k)>>) >>)
    [] sh[1] = "aaos" -> Arr(<< Arr(<< Obj(<< <<UF, L(k)>> >>) >>) >>)
    [] sh[1] = "oas"  -> Obj(<< <<UF, Arr(<<L(k)>>)>> >>)
    [] sh[1] = "oos"  -> Obj(<< <<UF, Obj(<< <<UF2, L(k)>> >>)>> >>)
    [] sh[1] = "xdate" -> Obj(<< <<"$date", L(k)>> >>)
    [] sh[1] = "xoid"  -> Obj(<< <<"$oid", L(k)>> >>)
    [] sh[1] = "xbin"  -> Obj(<< <<"$binary", Obj(<< <<"base64", L(k)>>, <<"subType", Str("plain", "free")>> >>)>> >>)
    [] sh[1] = "xdateS" -> Obj(<< <<"$date", L(k)>> >>)
    [] sh[1] = "xoidS"  -> Obj(<< <<"$oid", L(k)>> >>)
    [] sh[1] = "xbinB"  -> Obj(<< <<"$binary", Obj(<< <<"base64", L(k)>>, <<"subType", Str("plain", "free")>> >>)>> >>)
    [] sh[1] = "xdateNL" -> Obj(<< <<"$date", Obj(<< <<"$numberLong", L(k)>> >>)>> >>)
    [] sh[1] = "xdateA" -> Obj(<< <<"$date", Arr(<<L(k)>>)>> >>)
    [] sh[1] = "xdateO" -> Obj(<< <<"$date", Obj(<< <<UF, L(k)>> >>)>> >>)
    [] sh[1] = "xoidA"  -> Obj(<< <<"$oid", Arr(<<L(k)>>)>> >>)
    [] sh[1] = "xoidO"  -> Obj(<< <<"$oid", Obj(<< <<UF, L(k)>> >>)>> >>)
    [] sh[1] = "xbinA"  -> Obj(<< <<"$binary", Obj(<< <<"base64", Arr(<<L(k)>>)>>, <<"subType", Str("plain", "free")>> >>)>> >>)
    [] sh[1] = "xbinO"  -> Obj(<< <<"$binary", Obj(<< <<"base64", Obj(<< <<UF, L(k)>> >>)>>, <<"subType", L(k)>> >>)>> >>)
    [] sh[1] = "xbinS"  -> Obj(<< <<"$binary", L(k)>> >>)
    [] sh[1] = "xbinSA" -> Obj(<< <<"$binary", Arr(<<L(k), L("plain")>>)>> >>)
    [] sh[1] = "sao"  -> Arr(<< L(k), Obj(<< <<UF, L("plain")>> >>) >>)
    [] sh[1] = "saa"  -> Arr(<< L(k), Arr(<<L("plain")>>), Obj(<< <<UF2, L(k)>> >>) >>)
    [] sh[1] = "eo"   -> Obj(<< >>)
    [] sh[1] = "ea"   -> Arr(<< >>)

RECURSIVE Build(_, _)
Build(p, l) == IF p = << >> THEN l ELSE Obj(<< <<Head(p), Build(Tail(p), l)>> >>)

\* slot and slot value for a context
SlotOf(c) ==
  CASE c \in {"filterTop", "filterField", "exprArr"} -> "filter"
    [] c = "documents" -> "documents"
    [] c = "updatesU"  -> "updates"
    [] c = "updatePipe" -> "update"
    [] OTHER -> "pipeline"

Wrap(c, inner) ==
  CASE c = "filterTop"     -> inner
    [] c = "filterField"   -> Obj(<< <<UF2, inner>> >>)
    [] c = "exprArr"       -> Obj(<< <<"$expr", Obj(<< <<"$and", Arr(<<inner, L("dollar")>>)>> >>)>> >>)
    [] c = "documents"     -> Arr(<<inner>>)
    [] c = "updatesU"      -> Arr(<< Obj(<< <<"q", Obj(<< <<UF2, L("plain")>> >>)>>, <<"u", inner>>, <<"multi", Bool("free")>> >>) >>)
    [] c = "updatePipe"    -> Arr(<<inner>>)
    [] c = "stage"         -> Arr(<<inner>>)
    [] c = "matchStage"    -> Arr(<< Obj(<< <<"$match", inner>> >>) >>)
    [] c = "subPipe"       -> Arr(<< Obj(<< <<"$lookup", Obj(<< <<"from", NsName>>, <<"pipeline", Arr(<<inner>>)>>, <<"as", Str("plain", "free")>> >>)>> >>) >>)
    [] c = "facetPipe"     -> Arr(<< Obj(<< <<"$facet", Obj(<< <<UF2, Arr(<<inner>>)>>,
                                                                 <<"uf3", Arr(<< Obj(<< <<"$match", Obj(<< <<UF, L("plain")>> >>)>> >>) >>)>> >>)>> >>) >>)
    [] c = "searchStage"   -> Arr(<< Obj(<< <<"$search", inner>> >>) >>)
    \* an ordinary stage that follows a leading $search stage (every stage picks its own operator table)
    [] c = "afterSearch"   -> Arr(<< Obj(<< <<"$search", Obj(<< <<"index", Str("plain", "keep")>>,
                                                               <<"text", Obj(<< <<"query", L("plain")>>, <<"path", Str("plain", "free")>> >>)>> >>)>> >>),
                                     inner >>)
    [] c = "compoundMust"  -> Arr(<< Obj(<< <<"$search", Obj(<< <<"index", Str("plain", "keep")>>, <<"compound", Obj(<< <<"must", Arr(<<inner>>)>> >>)>> >>)>> >>) >>)
    [] c = "embedded"      -> Arr(<< Obj(<< <<"$search", Obj(<< <<"embeddedDocument", Obj(<< <<"path", Str("plain", "free")>>, <<"operator", inner>> >>)>> >>)>> >>) >>)
    [] c = "facetOperator" -> Arr(<< Obj(<< <<"$searchMeta", Obj(<< <<"facet", Obj(<< <<"operator", inner>> >>)>> >>)>> >>) >>)
    [] c = "vectorFilter"  -> Arr(<< Obj(<< <<"$vectorSearch", Obj(<< <<"filter", inner>> >>)>> >>) >>)
    [] c = "facetDefs"     -> Arr(<< Obj(<< <<"$searchMeta", Obj(<< <<"facet", Obj(<< <<"facets", Obj(<< <<UF2, inner>> >>)>> >>)>> >>)>> >>) >>)

\* OperatorMapDefs' first key (facets) is the map name itself, already part of the wrapper
PathFor(t, p) == IF t = "mapDefs" THEN Tail(p) ELSE p

CaseLine ==
  LET slot == SlotOf(ctx)
      val  == Wrap(ctx, Build(PathFor(table, path), ShapeTree(shape)))
  IN Line(DefaultEnv, Cmd(VerbFor(slot), slot, val))

TableNames == IF TWTables = {} THEN DOMAIN Tables ELSE TWTables

ShapeSet == IF TWShapeKinds = {} THEN Shapes ELSE { sh \in Shapes \cup WrapShapes : sh[1] \in TWShapeKinds }

Init == /\ table \in TableNames
        /\ ctx \in Contexts[table]
        /\ path = << >>
        /\ shape = <<"eo", "null">>
        /\ phase = 0
Next == \/ /\ phase = 0
           /\ path' \in { p \in PathsOf(Tables[table]) : table = "mapDefs" => Len(p) > 1 }
           /\ phase' = 1
           /\ UNCHANGED <<table, ctx, shape>>
        \/ /\ phase = 1
           /\ shape' \in ShapeSet
           /\ phase' = 2
           /\ UNCHANGED <<table, ctx, path>>

EmitInv == phase = 2 => EmitCase("tw", CaseLine)
IdemInv == phase = 2 => IdempotentAll(CaseLine)
=============================================================================
