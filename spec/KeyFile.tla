------------------------------- MODULE KeyFile -------------------------------
(***************************************************************************)
(* L2 - life cycle of the encryption key file over consecutive runs of     *)
(* `anonymongo redact <in> -o <out> --encrypt -q <keyPath>` (main.go key   *)
(* stage, encryption.go ReadKeyFromFile / WriteKeyToFile / GenerateKey,    *)
(* helpers.go FileExists).  One action per step of a run, in code order:   *)
(*   CreateOut -> StatKey -> (Generate -> WriteKey | ReadKey) -> lines ->   *)
(*   ExitRun ; NextRun starts the following run over the same path.        *)
(* Keys are abstract identities (fresh natural numbers); the content of    *)
(* an unusable key file is its kind.                                       *)
(***************************************************************************)
EXTENDS Naturals, Sequences, FiniteSets

ValidKinds    == {"valid", "validNL", "validLink"}          \* base64 of 64 bytes (validNL: followed by a newline; validLink: reached
                                                            \* through a symbolic link)
UnusableKinds == {"empty", "short", "long", "nonb64", "dir", "unreadable"}
MissingKinds  == {"absent", "noparent"}                     \* nothing at the path (noparent: not even its directory)
Kinds == ValidKinds \cup UnusableKinds \cup MissingKinds

VARIABLES
  path,     \* [kind, key, mode]   what is at the key path
  out,      \* Seq(Nat)            key identities under which the lines of the current output file were encrypted
  inUse,    \* key identity loaded into the process (0 = none)
  pc,       \* "start" | "outCreated" | "absent" | "generated" | "ready" | "exited"
  run,      \* number of the current run (1..)
  exit,     \* exit status of the current run (0 / 1), meaningful when pc = "exited"
  fresh,    \* next unused key identity
  hist,     \* history: one record per finished run
  lines,    \* how many object lines the input of a run has
  input,    \* "good": a line with nothing to encrypt, then two command lines | "abort": the same with an over-long line after the
            \* second line (the run fails part-way) | "benign": two lines with nothing to encrypt at all
  env,      \* what the environment did to the key path before this run ("none" or the kind it put there)
  before    \* history: what was at the key path when this run started

vars == <<path, out, inUse, pc, run, exit, fresh, hist, lines, input, env, before>>

NoKey == 0
Inputs == {"good", "abort", "benign"}
LinesOf(i) == IF i = "benign" THEN 2 ELSE 3
PathRec(k, id, m) == [kind |-> k, key |-> id, mode |-> m]

KeyFileInit(k) ==
  /\ path = PathRec(k, IF k \in ValidKinds THEN 1 ELSE NoKey, IF k \in MissingKinds THEN "none" ELSE IF k = "dir" THEN "dir" ELSE IF k = "unreadable" THEN "000" ELSE "644")
  /\ out = <<>> /\ inUse = NoKey /\ pc = "start" /\ run = 1 /\ exit = 0 /\ fresh = 2 /\ hist = <<>>
  /\ input \in Inputs /\ lines = LinesOf(input) /\ env = "none" /\ before = path

\* os.Create(outputFile): the output is truncated before the key stage
CreateOut == /\ pc = "start" /\ out' = <<>> /\ pc' = "outCreated" /\ UNCHANGED <<path, inUse, run, exit, fresh, hist, lines, input, env, before>>

\* FileExists: a regular file (whatever it holds) exists; a directory and a missing path do not
Exists == path.kind \in ValidKinds \cup (UnusableKinds \ {"dir"})

StatKey == /\ pc = "outCreated"
           /\ pc' = IF Exists THEN "exists" ELSE "absent"
           /\ UNCHANGED <<path, out, inUse, run, exit, fresh, hist, lines, input, env, before>>

\* GenerateKey: 64 fresh random bytes
Generate == /\ pc = "absent" /\ inUse' = fresh /\ fresh' = fresh + 1 /\ pc' = "generated"
            /\ UNCHANGED <<path, out, run, exit, hist, lines, input, env, before>>

\* WriteKeyToFile: base64, mode 0600 - fails when the path is a directory or its directory is missing
WriteKey == /\ pc = "generated"
            /\ IF path.kind = "absent"
               THEN path' = PathRec("valid", inUse, "600") /\ pc' = "ready" /\ UNCHANGED exit
               ELSE path' = path /\ pc' = "exited" /\ exit' = 1
            /\ UNCHANGED <<out, inUse, run, fresh, hist, lines, input, env, before>>

\* ReadKeyFromFile: read, base64-decode (newlines ignored), 64 bytes
ReadKey == /\ pc = "exists"
           /\ IF path.kind \in ValidKinds
              THEN inUse' = path.key /\ pc' = "ready" /\ UNCHANGED exit
              ELSE inUse' = inUse /\ pc' = "exited" /\ exit' = 1
           /\ UNCHANGED <<path, out, run, fresh, hist, lines, input, env, before>>

\* one redacted line with ciphertexts under the key in use
WriteCipherLine == /\ pc = "ready" /\ Len(out) < lines /\ ~(input = "abort" /\ Len(out) = 2) /\ out' = Append(out, inUse)
                   /\ UNCHANGED <<path, inUse, pc, run, exit, fresh, hist, lines, input, env, before>>

ExitOk == /\ pc = "ready" /\ Len(out) = lines /\ pc' = "exited" /\ exit' = 0
          /\ UNCHANGED <<path, out, inUse, run, fresh, hist, lines, input, env, before>>

\* the scanner meets the over-long line after the second line: the run ends with an error, two lines are already written
AbortMidRun == /\ pc = "ready" /\ input = "abort" /\ Len(out) = 2 /\ pc' = "exited" /\ exit' = 1
               /\ UNCHANGED <<path, out, inUse, run, fresh, hist, lines, input, env, before>>

\* the next run starts over the same path, in a new process (no key in memory)
NextRun == /\ pc = "exited"
           /\ hist' = Append(hist, [run |-> run, exit |-> exit, path |-> path, out |-> out, used |-> inUse, input |-> input, env |-> env, before |-> before])
           /\ run' = run + 1 /\ pc' = "start" /\ inUse' = NoKey /\ exit' = 0
           /\ input' \in Inputs /\ lines' = LinesOf(input')
           \* between two runs the environment may leave the path alone or put something else there (another valid key is a new identity)
           /\ \E k \in {"none"} \cup Kinds :
                /\ env' = k
                /\ IF k = "none" THEN path' = path /\ fresh' = fresh
                   ELSE /\ path' = PathRec(k, IF k \in ValidKinds THEN fresh ELSE NoKey,
                                            IF k \in MissingKinds THEN "none" ELSE IF k = "dir" THEN "dir" ELSE IF k = "unreadable" THEN "000" ELSE "644")
                        /\ fresh' = IF k \in ValidKinds THEN fresh + 1 ELSE fresh
           /\ before' = path'
           /\ UNCHANGED out

ProgramStep == CreateOut \/ StatKey \/ Generate \/ WriteKey \/ ReadKey \/ WriteCipherLine \/ ExitOk \/ AbortMidRun
KeyFileNext == ProgramStep \/ NextRun

-----------------------------------------------------------------------------
\* an existing entry at the key path is never changed by any step
NeverOverwrite == [][ProgramStep /\ path.kind \notin MissingKinds => path' = path]_vars
\* ciphertext is written only under the key that is stored at the path at that moment
\* (between two runs the environment may swap the key: the old output then belongs to the old key until CreateOut truncates it)
KeyBeforeCiphertext == pc # "start" => \A i \in 1..Len(out) : path.kind \in ValidKinds /\ out[i] = path.key
\* an unusable key file (or a path where no key can be stored) ends the run with failure and without output
UnusableRefused == pc = "exited" /\ (path.kind \in UnusableKinds \cup {"noparent"}) => exit # 0 /\ out = <<>>
\* a key is created only where there was none, with owner-only permissions
CreateOnce == [][ProgramStep /\ path' # path => path.kind = "absent" /\ path'.kind = "valid" /\ path'.mode = "600" /\ path'.key = inUse]_vars
\* a run that succeeds used the key stored at the path; consecutive successful runs use the same key
\* ... as long as the environment leaves the path alone
ReadBack == \A i \in 1..Len(hist) : i > 1 /\ hist[i].env = "none" /\ hist[i].exit = 0 /\ hist[i-1].exit = 0 => hist[i].used = hist[i-1].used
SuccessHasKey == pc = "exited" /\ exit = 0 => path.kind \in ValidKinds /\ path.key = inUse /\ Len(out) = lines /\ input # "abort"
=============================================================================
