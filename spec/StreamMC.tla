------------------------------ MODULE StreamMC -------------------------------
(***************************************************************************)
(* Bounded instance of Stream: every line sequence up to SMaxLen over      *)
(* SKinds x final newline x progress bar x every write-fault position and  *)
(* kind x every read-fault position (in front of a line, inside a line,    *)
(* at the very end).  Each terminal state is printed as one JSON record    *)
(* (the environment and the specification's predicted outcome) and is      *)
(* replayed against the real code by checks/c06.py, c07.py, c08.py.        *)
(***************************************************************************)
EXTENDS Stream, StreamParams, TLC, Json

Seqs(S, n) == UNION {[1..m -> S] : m \in 0..n}

NoWr == [k |-> 0, kind |-> "none"]
NoRd == [line |-> 1, mid |-> FALSE, on |-> FALSE]

Init ==
  /\ input \in Seqs(SKinds, SMaxLen)
  /\ finalNL \in BOOLEAN
  /\ barOn \in SBar
  /\ wr \in {NoWr} \cup {[k |-> k, kind |-> kd] : k \in 1..(SMaxLen + 1), kd \in SWrKinds \ {"none"}}
  /\ rd \in {NoRd} \cup (IF SRdOn THEN {[line |-> l, mid |-> m, on |-> TRUE] : l \in 1..(SMaxLen + 1), m \in BOOLEAN} ELSE {})
  /\ rd.line <= Len(input) + 1
  /\ wr.k <= Len(input) + 1
  /\ ~(wr.kind # "none" /\ rd.on)             \* one fault per run (each fault position with every input)
  /\ StreamInit

Next == StreamNext
Spec == Init /\ [][Next]_vars /\ WF_vars(Next)

Rec == [input |-> input, finalNL |-> finalNL, bar |-> barOn, wr |-> wr, rd |-> rd,
        out |-> out, tail |-> tail, status |-> status, cause |-> cause, nwrites |-> nwrites, barCur |-> barCur,
        faulted |-> faulted]
EmitInv == status # "running" => PrintT(ToJson(Rec))
=============================================================================
