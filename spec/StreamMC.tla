------------------------------ MODULE StreamMC -------------------------------
(***************************************************************************)
(* Bounded instance of Stream: every line sequence up to SMaxLen over      *)
(* SKinds x final newline x progress bar x every write-fault position and  *)
(* kind x every read-fault position (in front of a line, inside a line,    *)
(* at the very end).  Each terminal state is printed as one JSON record    *)
(* (the environment and the specification's predicted outcome) and is      *)
(* replayed against the real code by checks/c06.py, c07.py, c08.py.        *)
(***************************************************************************)
EXTENDS Stream, StreamParams, TLC, Json

NoWr == [k |-> 0, kind |-> "none"]
NoRd == [line |-> 1, mid |-> FALSE, on |-> FALSE]

\* The log is built line by line (so that simulation reaches long sequences without enumerating a huge set), then the
\* environment (final newline, bar, one fault) is chosen and the run starts.
VARIABLE phase      \* "build" | "run"

Init ==
  /\ phase = "build" /\ input = <<>> /\ finalNL = FALSE /\ barOn = FALSE /\ wr = NoWr /\ rd = NoRd
  /\ StreamInit

AddLine ==
  /\ phase = "build" /\ Len(input) < SMaxLen
  /\ \E k \in SKinds : input' = Append(input, k)
  /\ UNCHANGED <<phase, finalNL, barOn, wr, rd, pos, cur, out, tail, nwrites, barCur, rdHit, faulted, status, cause>>

Start ==
  /\ phase = "build" /\ phase' = "run"
  /\ finalNL' \in BOOLEAN
  /\ barOn' \in SBar
  /\ wr' \in {NoWr} \cup {[k |-> k, kind |-> kd] : k \in 1..(Len(input) + 1), kd \in SWrKinds \ {"none"}}
  /\ rd' \in {NoRd} \cup (IF SRdOn THEN {[line |-> l, mid |-> m, on |-> TRUE] : l \in 1..(Len(input) + 1), m \in BOOLEAN} ELSE {})
  /\ ~(wr'.kind # "none" /\ rd'.on)             \* one fault per run (each fault position with every input)
  /\ UNCHANGED <<input, pos, cur, out, tail, nwrites, barCur, rdHit, faulted, status, cause>>
  /\ EnvOK'

Next == AddLine \/ Start \/ (phase = "run" /\ StreamNext /\ UNCHANGED phase)
Spec == Init /\ [][Next]_<<vars, phase>> /\ WF_<<vars, phase>>(Next)

Rec == [input |-> input, finalNL |-> finalNL, bar |-> barOn, wr |-> wr, rd |-> rd,
        out |-> out, tail |-> tail, status |-> status, cause |-> cause, nwrites |-> nwrites, barCur |-> barCur,
        faulted |-> faulted]
EmitInv == phase = "run" /\ status # "running" => PrintT(ToJson(Rec))
\* building is bounded, so every behaviour starts its run and ends it
TerminatesMC == <>(phase = "run" /\ status # "running")
=============================================================================
