SPECIFICATION Spec
CONSTRAINT Bound
INVARIANT KeyBeforeCiphertext
INVARIANT UnusableRefused
INVARIANT ReadBack
INVARIANT SuccessHasKey
INVARIANT EmitInv
PROPERTY NeverOverwrite
PROPERTY CreateOnce
CHECK_DEADLOCK FALSE
