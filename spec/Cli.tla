--------------------------------- MODULE Cli ---------------------------------
(***************************************************************************)
(* L1 - job acceptance of `anonymongo redact` (src/main.go, Run of the     *)
(* redact command).  State: the 13 presence switches of the property's     *)
(* quantifier; one action per validation check, in code order, then the    *)
(* side effects in code order (output file creation, key stage, network /  *)
(* processing).  The rule table WellDefined / IllDefined is written from   *)
(* the README and the property statement, not from the code.               *)
(***************************************************************************)
EXTENDS Naturals, Sequences, FiniteSets

Switches == {"file", "stdin", "out", "enc", "regexp", "names", "proj", "cluster", "pub", "priv", "start", "end", "envkeys"}

VARIABLES sw,       \* [Switches -> BOOLEAN]
          pc,       \* next step of the Run function
          effects,  \* Seq of side effects performed so far, in order: "outCreated", "keyStage", "net", "stream"
          verdict,  \* "pending" | "rejected" | "accepted"
          reason    \* which check rejected

vars == <<sw, pc, effects, verdict, reason>>

\* ---- what main.go computes ------------------------------------------------
AtlasParamsSet == sw["proj"] \/ sw["cluster"] \/ sw["start"] \/ sw["end"] \/ sw["pub"] \/ sw["priv"]   \* flags only
PublicKey  == sw["pub"]  \/ sw["envkeys"]
PrivateKey == sw["priv"] \/ sw["envkeys"]

Steps == << "regexpVsNames", "dates", "projCluster", "atlasNeedsCluster", "atlasVsFile", "atlasVsStdin", "atlasNeedsOut",
            "fileVsStdin", "encryptNeedsFiles", "source", "keyPair", "createOutput", "keyStage", "go" >>

RejectCond(step) ==
  CASE step = "regexpVsNames"     -> sw["regexp"] /\ sw["names"]
    [] step = "dates"             -> sw["start"] # sw["end"]
    [] step = "projCluster"       -> sw["proj"] # sw["cluster"]
    [] step = "atlasNeedsCluster" -> AtlasParamsSet /\ ~sw["proj"] /\ ~sw["cluster"]
    [] step = "atlasVsFile"       -> AtlasParamsSet /\ sw["file"]
    [] step = "atlasVsStdin"      -> AtlasParamsSet /\ sw["stdin"]
    [] step = "atlasNeedsOut"     -> AtlasParamsSet /\ ~sw["out"]
    [] step = "fileVsStdin"       -> ~AtlasParamsSet /\ sw["file"] /\ sw["stdin"]
    [] step = "encryptNeedsFiles" -> sw["enc"] /\ (sw["stdin"] \/ ~sw["out"]) /\ ~AtlasParamsSet
    [] step = "source"            -> ~sw["file"] /\ ~sw["stdin"] /\ ~AtlasParamsSet
    [] step = "keyPair"           -> AtlasParamsSet /\ ~(PublicKey /\ PrivateKey)
    [] OTHER                      -> FALSE

IndexOf(step) == CHOOSE i \in 1..Len(Steps) : Steps[i] = step
NextStep(step) == Steps[IndexOf(step) + 1]
ValidationSteps == {Steps[i] : i \in 1..11}

CliInit == /\ sw \in [Switches -> BOOLEAN]
           /\ pc = Steps[1] /\ effects = <<>> /\ verdict = "pending" /\ reason = "none"

\* one validation check: reject (stderr + exit 1) or fall through
Check(step) ==
  /\ verdict = "pending" /\ pc = step /\ step \in ValidationSteps
  /\ IF RejectCond(step)
     THEN verdict' = "rejected" /\ reason' = step /\ UNCHANGED <<pc, effects>>
     ELSE pc' = NextStep(step) /\ UNCHANGED <<verdict, reason, effects>>
  /\ UNCHANGED sw

\* os.Create(outputFile) - after all validation
CreateOutput ==
  /\ verdict = "pending" /\ pc = "createOutput"
  /\ effects' = IF sw["out"] THEN Append(effects, "outCreated") ELSE effects
  /\ pc' = "keyStage" /\ UNCHANGED <<sw, verdict, reason>>

\* create-or-load of the key file (KeyFile.tla refines this step)
KeyStage ==
  /\ verdict = "pending" /\ pc = "keyStage"
  /\ effects' = IF sw["enc"] THEN Append(effects, "keyStage") ELSE effects
  /\ pc' = "go" /\ UNCHANGED <<sw, verdict, reason>>

Go ==
  /\ verdict = "pending" /\ pc = "go"
  /\ effects' = Append(effects, IF AtlasParamsSet THEN "net" ELSE "stream")
  /\ verdict' = "accepted" /\ UNCHANGED <<sw, pc, reason>>

CliNext == (\E s \in ValidationSteps : Check(s)) \/ CreateOutput \/ KeyStage \/ Go
CliSpec == CliInit /\ [][CliNext]_vars /\ WF_vars(CliNext)

-----------------------------------------------------------------------------
(* The rule table (README + statement), three-valued *)
AtlasSrc == sw["proj"] /\ sw["cluster"]
AtlasAny == sw["proj"] \/ sw["cluster"] \/ sw["pub"] \/ sw["priv"] \/ sw["start"] \/ sw["end"]
KeyPair  == (sw["pub"] \/ sw["envkeys"]) /\ (sw["priv"] \/ sw["envkeys"])
NSources == (IF sw["file"] THEN 1 ELSE 0) + (IF sw["stdin"] THEN 1 ELSE 0) + (IF AtlasSrc THEN 1 ELSE 0)

MustReject ==
  \/ sw["regexp"] /\ sw["names"]
  \/ sw["start"] # sw["end"]
  \/ sw["proj"] # sw["cluster"]
  \/ NSources # 1
  \/ AtlasSrc /\ ~(sw["out"] /\ KeyPair)
  \/ sw["enc"] /\ (sw["stdin"] \/ (sw["file"] /\ ~sw["out"]))
Either == ~MustReject /\ ((AtlasAny /\ ~AtlasSrc) \/ (sw["enc"] /\ AtlasSrc))
MustAccept == ~MustReject /\ ~Either
Rule == IF MustReject THEN "reject" ELSE IF Either THEN "either" ELSE "accept"

AcceptIffWellDefined ==
  /\ (verdict = "accepted" => ~MustReject)
  /\ (verdict = "rejected" => ~MustAccept)
RejectionIsPure == verdict = "rejected" => effects = <<>>
\* an accepted job runs as the job of its single source
RunsItsSource == verdict = "accepted" =>
                   /\ (effects[Len(effects)] = "net") = AtlasSrc
                   /\ (sw["out"] => effects[1] = "outCreated")
\* order of effects: output created before the key stage, both before any network / processing
EffectOrder == \A i, j \in 1..Len(effects) :
                 i < j => <<effects[i], effects[j]>> \in {<<"outCreated", "keyStage">>, <<"outCreated", "net">>, <<"outCreated", "stream">>,
                                                         <<"keyStage", "net">>, <<"keyStage", "stream">>}
Decides == <>(verdict # "pending")
=============================================================================
