------------------------------- MODULE AtlasMC -------------------------------
EXTENDS Atlas, AtlasParams, TLC, Json
Init == /\ n \in 1..MaxHosts /\ auth \in AAuth /\ cli \in ACli
        /\ fault \in [at : 0..MaxHosts, kind : AKinds]
        /\ (auth # "digest" => fault.kind \in {"none"} \cup ReqFaults)     \* file faults are explored with the ordinary server
        /\ (fault.kind = "notmp" => fault.at = 1)                          \* the temp directory is one for the whole run: the first download meets it
        /\ keyOk \in BOOLEAN /\ (~keyOk => cli /\ fault.kind = "none" /\ auth = "digest")
        /\ AtlasInit
Spec == Init /\ [][AtlasNext]_vars /\ WF_vars(AtlasNext)
Rec == [n |-> n, auth |-> auth, fault |-> fault, cli |-> cli, keyOk |-> keyOk, reqLog |-> reqLog, outs |-> outs, touched |-> touched, exit |-> exit,
        reg |-> reg, tmp |-> tmp]
EmitInv == Done => PrintT(ToJson(Rec))
=============================================================================
