SPECIFICATION TraceSpec
CONSTRAINT HighWater
INVARIANT TRejectionIsPure
INVARIANT EffectOrder
POSTCONDITION Post
CHECK_DEADLOCK FALSE
