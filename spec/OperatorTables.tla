---- MODULE OperatorTables ----
\* The five operator tables of src/operators.go as tagged TLA+ values.  Produced by bin/gen-tables from a dump
\* of the Go tables, reviewed against operators.go and committed: from then on THIS FILE IS THE SPECIFICATION.
\* Every check compares the dump of the current tree with it (differences are reported as table drift and
\* the entries that exist only in the implementation are added to the case set of that run).
\* An entry is Ty(x) (an OperatorType), Tab(f) (a nested table), GoNil (a key whose Go value is nil).
\* Nil is the model's 'no entry'.  Records are tagged because TLC cannot compare a function with a string.
EXTENDS TLC

Ty(x)  == [tag |-> "ty", ty |-> x]
Tab(f) == [tag |-> "tab", m |-> f]
Nil    == [tag |-> "nil"]
GoNil  == [tag |-> "gonil"]
R == Ty("Redactable")
E == Ty("Exempt")
OA == Ty("OperatorArray")
OM == Ty("OperatorMap")
P == Ty("Pipeline")
FN == Ty("FieldName")
NS == Ty("Namespace")

AggregationOperators ==
  Tab(("$addFields" :> R) @@
      ("$bucket" :> Tab(("boundaries" :> R) @@
        ("default" :> R) @@
        ("output" :> R) @@
        ("groupBy" :> FN))) @@
      ("$bucketAuto" :> Tab(("granularity" :> R) @@
        ("output" :> R) @@
        ("buckets" :> R) @@
        ("groupBy" :> R))) @@
      ("$changeStream" :> Tab(("allChangesForCluster" :> R) @@
        ("fullDocument" :> R) @@
        ("fullDocumentBeforeChange" :> R) @@
        ("resumeAfter" :> R) @@
        ("showExpandedEvents" :> R) @@
        ("startAfter" :> R) @@
        ("startAtOperationTime" :> R))) @@
      ("$changeStreamSplitLargeEvent" :> R) @@
      ("$collStats" :> Tab(("latencyStats" :> R) @@
        ("storageStats" :> R) @@
        ("count" :> R) @@
        ("queryExecStats" :> R))) @@
      ("$count" :> FN) @@
      ("$currentOp" :> Tab(("allUsers" :> R) @@
        ("idleConnections" :> R) @@
        ("idleCursors" :> R) @@
        ("idleSessions" :> R) @@
        ("localOps" :> R))) @@
      ("$densify" :> Tab(("field" :> FN) @@
        ("partitionByFields" :> R) @@
        ("range" :> Tab(("step" :> E) @@
          ("units" :> E) @@
          ("bounds" :> R))))) @@
      ("$documents" :> R) @@
      ("$facet" :> P) @@
      ("$fill" :> Tab(("partitionByFields" :> FN) @@
        ("partitionBy" :> R) @@
        ("sortBy" :> FN) @@
        ("output" :> R))) @@
      ("$geoNear" :> Tab(("distanceField" :> FN) @@
        ("distanceMultiplier" :> R) @@
        ("includeLocs" :> R) @@
        ("key" :> R) @@
        ("maxDistance" :> R) @@
        ("minDistance" :> R) @@
        ("near" :> R) @@
        ("query" :> R) @@
        ("spherical" :> R))) @@
      ("$graphLookup" :> Tab(("from" :> NS) @@
        ("startWith" :> R) @@
        ("connectFromField" :> FN) @@
        ("connectToField" :> FN) @@
        ("as" :> R) @@
        ("maxDepth" :> R) @@
        ("depthField" :> FN) @@
        ("restrictSearchWithMatch" :> R))) @@
      ("$group" :> R) @@
      ("$indexStats" :> R) @@
      ("$limit" :> E) @@
      ("$listLocalSessions" :> Tab(("users" :> R) @@
        ("allUsers" :> R))) @@
      ("$listSampledQueries" :> Tab(("namespace" :> GoNil))) @@
      ("$listSearchIndexes" :> Tab(("id" :> R) @@
        ("name" :> R))) @@
      ("$listSessions" :> Tab(("users" :> R) @@
        ("allUsers" :> R))) @@
      ("$lookup" :> Tab(("from" :> NS) @@
        ("localField" :> R) @@
        ("foreignField" :> R) @@
        ("let" :> R) @@
        ("pipeline" :> P) @@
        ("as" :> E))) @@
      ("$match" :> R) @@
      ("$merge" :> Tab(("into" :> NS) @@
        ("on" :> R) @@
        ("let" :> R) @@
        ("whenMatched" :> P) @@
        ("whenNotMatched" :> E))) @@
      ("$out" :> Tab(("db" :> NS) @@
        ("coll" :> NS) @@
        ("timeseries" :> E))) @@
      ("$planCacheStats" :> E) @@
      ("$project" :> Tab(<< >>)) @@
      ("$querySettings" :> E) @@
      ("$queryStats" :> E) @@
      ("$redact" :> R) @@
      ("$replaceRoot" :> Tab(("newRoot" :> FN))) @@
      ("$replaceWith" :> R) @@
      ("$sample" :> E) @@
      ("$set" :> R) @@
      ("$setWindowFields" :> Tab(("partitionBy" :> R) @@
        ("sortBy" :> FN) @@
        ("output" :> R) @@
        ("window" :> R))) @@
      ("$shardedDataDistribution" :> E) @@
      ("$skip" :> E) @@
      ("$sort" :> R) @@
      ("$sortByCount" :> FN) @@
      ("$unionWith" :> Tab(("coll" :> NS) @@
        ("pipeline" :> P))) @@
      ("$unset" :> FN) @@
      ("$unwind" :> FN))

CoreOperators ==
  Tab(("$eq" :> R) @@
      ("$gt" :> R) @@
      ("$gte" :> R) @@
      ("$in" :> R) @@
      ("$lt" :> R) @@
      ("$lte" :> R) @@
      ("$ne" :> R) @@
      ("$nin" :> R) @@
      ("$and" :> OA) @@
      ("$not" :> R) @@
      ("$nor" :> R) @@
      ("$or" :> OA) @@
      ("$exists" :> R) @@
      ("$type" :> R) @@
      ("$expr" :> R) @@
      ("$jsonSchema" :> R) @@
      ("$mod" :> R) @@
      ("$regex" :> R) @@
      ("$text" :> R) @@
      ("$where" :> R) @@
      ("$geoIntersects" :> R) @@
      ("$geoWithin" :> R) @@
      ("$near" :> R) @@
      ("$nearSphere" :> R) @@
      ("$all" :> R) @@
      ("$elemMatch" :> R) @@
      ("$size" :> R) @@
      ("$bitsAllClear" :> R) @@
      ("$bitsAllSet" :> R) @@
      ("$bitsAnyClear" :> R) @@
      ("$bitsAnySet" :> R) @@
      ("$meta" :> R) @@
      ("$slice" :> R) @@
      ("$rand" :> R) @@
      ("$natural" :> R) @@
      ("$currentDate" :> R) @@
      ("$inc" :> R) @@
      ("$min" :> R) @@
      ("$max" :> R) @@
      ("$mul" :> R) @@
      ("$rename" :> R) @@
      ("$setOnInsert" :> R) @@
      ("$addToSet" :> R) @@
      ("$pop" :> R) @@
      ("$pull" :> R) @@
      ("$push" :> R) @@
      ("$pullAll" :> R) @@
      ("$each" :> R) @@
      ("$position" :> R) @@
      ("$bit" :> R) @@
      ("$abs" :> R) @@
      ("$add" :> R) @@
      ("$ceil" :> R) @@
      ("$divide" :> R) @@
      ("$exp" :> R) @@
      ("$floor" :> R) @@
      ("$ln" :> R) @@
      ("$log" :> R) @@
      ("$log10" :> R) @@
      ("$multiply" :> R) @@
      ("$pow" :> R) @@
      ("$round" :> R) @@
      ("$sqrt" :> R) @@
      ("$subtract" :> R) @@
      ("$trunc" :> R) @@
      ("$arrayElemAt" :> R) @@
      ("$arrayToObject" :> R) @@
      ("$concatArrays" :> R) @@
      ("$filter" :> R) @@
      ("$firstN" :> R) @@
      ("$indexOfArray" :> R) @@
      ("$isArray" :> R) @@
      ("$lastN" :> R) @@
      ("$map" :> R) @@
      ("$maxN" :> R) @@
      ("$minN" :> R) @@
      ("$objectToArray" :> R) @@
      ("$range" :> R) @@
      ("$reduce" :> R) @@
      ("$reverseArray" :> R) @@
      ("$sortArray" :> R) @@
      ("$zip" :> R) @@
      ("$cmp" :> R) @@
      ("$oid" :> R) @@
      ("$date" :> R) @@
      ("$cond" :> Tab(("if" :> R) @@
        ("then" :> R) @@
        ("else" :> R))) @@
      ("if" :> R) @@
      ("then" :> R) @@
      ("else" :> R) @@
      ("$binary" :> Tab(("base64" :> R) @@
        ("subType" :> E))) @@
      ("$addFields" :> R) @@
      ("$bucket" :> Tab(("boundaries" :> R) @@
        ("default" :> R) @@
        ("output" :> R) @@
        ("groupBy" :> FN))) @@
      ("$bucketAuto" :> Tab(("granularity" :> R) @@
        ("output" :> R) @@
        ("buckets" :> R) @@
        ("groupBy" :> R))) @@
      ("$changeStream" :> Tab(("allChangesForCluster" :> R) @@
        ("fullDocument" :> R) @@
        ("fullDocumentBeforeChange" :> R) @@
        ("resumeAfter" :> R) @@
        ("showExpandedEvents" :> R) @@
        ("startAfter" :> R) @@
        ("startAtOperationTime" :> R))) @@
      ("$changeStreamSplitLargeEvent" :> R) @@
      ("$collStats" :> Tab(("latencyStats" :> R) @@
        ("storageStats" :> R) @@
        ("count" :> R) @@
        ("queryExecStats" :> R))) @@
      ("$count" :> FN) @@
      ("$currentOp" :> Tab(("allUsers" :> R) @@
        ("idleConnections" :> R) @@
        ("idleCursors" :> R) @@
        ("idleSessions" :> R) @@
        ("localOps" :> R))) @@
      ("$densify" :> Tab(("field" :> FN) @@
        ("partitionByFields" :> R) @@
        ("range" :> Tab(("step" :> E) @@
          ("units" :> E) @@
          ("bounds" :> R))))) @@
      ("$documents" :> R) @@
      ("$facet" :> P) @@
      ("$fill" :> Tab(("partitionByFields" :> FN) @@
        ("partitionBy" :> R) @@
        ("sortBy" :> FN) @@
        ("output" :> R))) @@
      ("$geoNear" :> Tab(("distanceField" :> FN) @@
        ("distanceMultiplier" :> R) @@
        ("includeLocs" :> R) @@
        ("key" :> R) @@
        ("maxDistance" :> R) @@
        ("minDistance" :> R) @@
        ("near" :> R) @@
        ("query" :> R) @@
        ("spherical" :> R))) @@
      ("$graphLookup" :> Tab(("from" :> NS) @@
        ("startWith" :> R) @@
        ("connectFromField" :> FN) @@
        ("connectToField" :> FN) @@
        ("as" :> R) @@
        ("maxDepth" :> R) @@
        ("depthField" :> FN) @@
        ("restrictSearchWithMatch" :> R))) @@
      ("$group" :> R) @@
      ("$indexStats" :> R) @@
      ("$limit" :> E) @@
      ("$listLocalSessions" :> Tab(("users" :> R) @@
        ("allUsers" :> R))) @@
      ("$listSampledQueries" :> Tab(("namespace" :> GoNil))) @@
      ("$listSearchIndexes" :> Tab(("id" :> R) @@
        ("name" :> R))) @@
      ("$listSessions" :> Tab(("users" :> R) @@
        ("allUsers" :> R))) @@
      ("$lookup" :> Tab(("from" :> NS) @@
        ("localField" :> R) @@
        ("foreignField" :> R) @@
        ("let" :> R) @@
        ("pipeline" :> P) @@
        ("as" :> E))) @@
      ("$match" :> R) @@
      ("$merge" :> Tab(("into" :> NS) @@
        ("on" :> R) @@
        ("let" :> R) @@
        ("whenMatched" :> P) @@
        ("whenNotMatched" :> E))) @@
      ("$out" :> Tab(("db" :> NS) @@
        ("coll" :> NS) @@
        ("timeseries" :> E))) @@
      ("$planCacheStats" :> E) @@
      ("$project" :> Tab(<< >>)) @@
      ("$querySettings" :> E) @@
      ("$queryStats" :> E) @@
      ("$redact" :> R) @@
      ("$replaceRoot" :> Tab(("newRoot" :> FN))) @@
      ("$replaceWith" :> R) @@
      ("$sample" :> E) @@
      ("$set" :> R) @@
      ("$setWindowFields" :> Tab(("partitionBy" :> R) @@
        ("sortBy" :> FN) @@
        ("output" :> R) @@
        ("window" :> R))) @@
      ("$shardedDataDistribution" :> E) @@
      ("$skip" :> E) @@
      ("$sort" :> R) @@
      ("$sortByCount" :> FN) @@
      ("$unionWith" :> Tab(("coll" :> NS) @@
        ("pipeline" :> P))) @@
      ("$unset" :> FN) @@
      ("$unwind" :> FN))

OperatorMapDefs ==
  Tab(("facets" :> Tab(("numBuckets" :> E) @@
        ("type" :> E) @@
        ("path" :> FN))))

SearchOperators ==
  Tab(("autocomplete" :> Tab(("query" :> R) @@
        ("path" :> FN) @@
        ("tokenOrder" :> E) @@
        ("fuzzy" :> E) @@
        ("score" :> E))) @@
      ("compound" :> Tab(("must" :> OA) @@
        ("mustNot" :> OA) @@
        ("should" :> OA) @@
        ("filter" :> R) @@
        ("score" :> E) @@
        ("minimumShouldMatch" :> E))) @@
      ("embeddedDocument" :> Tab(("path" :> FN) @@
        ("operator" :> OM) @@
        ("score" :> E))) @@
      ("equals" :> Tab(("path" :> FN) @@
        ("value" :> R) @@
        ("score" :> E))) @@
      ("exists" :> Tab(("path" :> FN) @@
        ("score" :> E))) @@
      ("facet" :> Tab(("operator" :> R) @@
        ("facets" :> OM))) @@
      ("geoShape" :> Tab(("path" :> FN) @@
        ("relation" :> E) @@
        ("geometry" :> Tab(("type" :> E) @@
          ("coordinates" :> R))) @@
        ("score" :> E))) @@
      ("geoWithin" :> Tab(("path" :> FN) @@
        ("box" :> Tab(("bottomLeft" :> Tab(("type" :> E) @@
            ("coordinates" :> R))) @@
          ("topRight" :> Tab(("type" :> E) @@
            ("coordinates" :> R))))) @@
        ("circle" :> Tab(("center" :> Tab(("type" :> E) @@
            ("coordinates" :> R))) @@
          ("radius" :> R))) @@
        ("geometry" :> Tab(("type" :> E) @@
          ("coordinates" :> R))) @@
        ("score" :> E))) @@
      ("in" :> Tab(("path" :> FN) @@
        ("score" :> E) @@
        ("value" :> R))) @@
      ("moreLikeThis" :> Tab(("like" :> R) @@
        ("score" :> E))) @@
      ("near" :> Tab(("path" :> FN) @@
        ("origin" :> R) @@
        ("pivot" :> R) @@
        ("score" :> E))) @@
      ("phrase" :> Tab(("query" :> R) @@
        ("path" :> FN) @@
        ("score" :> E) @@
        ("slop" :> E) @@
        ("synonyms" :> R))) @@
      ("queryString" :> Tab(("defaultPath" :> FN) @@
        ("query" :> R))) @@
      ("range" :> Tab(("path" :> FN) @@
        ("gte" :> R) @@
        ("gt" :> R) @@
        ("lte" :> R) @@
        ("lt" :> R) @@
        ("score" :> E))) @@
      ("regex" :> Tab(("query" :> R) @@
        ("path" :> FN) @@
        ("allowAnalyzedField" :> E) @@
        ("score" :> E))) @@
      ("span" :> Tab(("term" :> Tab(("path" :> FN) @@
          ("query" :> R))) @@
        ("contains" :> Tab(("spanToReturn" :> E) @@
          ("little" :> R) @@
          ("big" :> R) @@
          ("score" :> E))) @@
        ("first" :> Tab(("endPositionLte" :> R) @@
          ("operator" :> R) @@
          ("score" :> E))) @@
        ("near" :> Tab(("clauses" :> R) @@
          ("slop" :> R) @@
          ("inOrder" :> E) @@
          ("score" :> E))) @@
        ("or" :> Tab(("clauses" :> R) @@
          ("score" :> E))) @@
        ("subtract" :> Tab(("include" :> R) @@
          ("exclude" :> R) @@
          ("score" :> E))))) @@
      ("text" :> Tab(("query" :> R) @@
        ("path" :> FN) @@
        ("fuzzy" :> E) @@
        ("matchCriteria" :> E) @@
        ("score" :> E) @@
        ("synonyms" :> R))) @@
      ("wildcard" :> Tab(("query" :> R) @@
        ("path" :> FN) @@
        ("allowAnalyzedField" :> E) @@
        ("score" :> E))) @@
      ("numBuckets" :> E))

SearchAggregationOperators ==
  Tab(("$search" :> Tab(("index" :> E) @@
        ("highlight" :> Tab(("path" :> FN) @@
          ("maxCharsToExamine" :> E) @@
          ("maxNumPassages" :> E))) @@
        ("concurrent" :> E) @@
        ("count" :> Tab(("type" :> E) @@
          ("threshold" :> E))) @@
        ("searchAfter" :> R) @@
        ("searchBefore" :> R) @@
        ("scoreDetails" :> E) @@
        ("sort" :> FN) @@
        ("returnStoredSource" :> E) @@
        ("tracking" :> Tab(<< >>)) @@
        ("autocomplete" :> Tab(("query" :> R) @@
          ("path" :> FN) @@
          ("tokenOrder" :> E) @@
          ("fuzzy" :> E) @@
          ("score" :> E))) @@
        ("compound" :> Tab(("must" :> OA) @@
          ("mustNot" :> OA) @@
          ("should" :> OA) @@
          ("filter" :> R) @@
          ("score" :> E) @@
          ("minimumShouldMatch" :> E))) @@
        ("embeddedDocument" :> Tab(("path" :> FN) @@
          ("operator" :> OM) @@
          ("score" :> E))) @@
        ("equals" :> Tab(("path" :> FN) @@
          ("value" :> R) @@
          ("score" :> E))) @@
        ("exists" :> Tab(("path" :> FN) @@
          ("score" :> E))) @@
        ("facet" :> Tab(("operator" :> R) @@
          ("facets" :> OM))) @@
        ("geoShape" :> Tab(("path" :> FN) @@
          ("relation" :> E) @@
          ("geometry" :> Tab(("type" :> E) @@
            ("coordinates" :> R))) @@
          ("score" :> E))) @@
        ("geoWithin" :> Tab(("path" :> FN) @@
          ("box" :> Tab(("bottomLeft" :> Tab(("type" :> E) @@
              ("coordinates" :> R))) @@
            ("topRight" :> Tab(("type" :> E) @@
              ("coordinates" :> R))))) @@
          ("circle" :> Tab(("center" :> Tab(("type" :> E) @@
              ("coordinates" :> R))) @@
            ("radius" :> R))) @@
          ("geometry" :> Tab(("type" :> E) @@
            ("coordinates" :> R))) @@
          ("score" :> E))) @@
        ("in" :> Tab(("path" :> FN) @@
          ("score" :> E) @@
          ("value" :> R))) @@
        ("moreLikeThis" :> Tab(("like" :> R) @@
          ("score" :> E))) @@
        ("near" :> Tab(("path" :> FN) @@
          ("origin" :> R) @@
          ("pivot" :> R) @@
          ("score" :> E))) @@
        ("phrase" :> Tab(("query" :> R) @@
          ("path" :> FN) @@
          ("score" :> E) @@
          ("slop" :> E) @@
          ("synonyms" :> R))) @@
        ("queryString" :> Tab(("defaultPath" :> FN) @@
          ("query" :> R))) @@
        ("range" :> Tab(("path" :> FN) @@
          ("gte" :> R) @@
          ("gt" :> R) @@
          ("lte" :> R) @@
          ("lt" :> R) @@
          ("score" :> E))) @@
        ("regex" :> Tab(("query" :> R) @@
          ("path" :> FN) @@
          ("allowAnalyzedField" :> E) @@
          ("score" :> E))) @@
        ("span" :> Tab(("term" :> Tab(("path" :> FN) @@
            ("query" :> R))) @@
          ("contains" :> Tab(("spanToReturn" :> E) @@
            ("little" :> R) @@
            ("big" :> R) @@
            ("score" :> E))) @@
          ("first" :> Tab(("endPositionLte" :> R) @@
            ("operator" :> R) @@
            ("score" :> E))) @@
          ("near" :> Tab(("clauses" :> R) @@
            ("slop" :> R) @@
            ("inOrder" :> E) @@
            ("score" :> E))) @@
          ("or" :> Tab(("clauses" :> R) @@
            ("score" :> E))) @@
          ("subtract" :> Tab(("include" :> R) @@
            ("exclude" :> R) @@
            ("score" :> E))))) @@
        ("text" :> Tab(("query" :> R) @@
          ("path" :> FN) @@
          ("fuzzy" :> E) @@
          ("matchCriteria" :> E) @@
          ("score" :> E) @@
          ("synonyms" :> R))) @@
        ("wildcard" :> Tab(("query" :> R) @@
          ("path" :> FN) @@
          ("allowAnalyzedField" :> E) @@
          ("score" :> E))) @@
        ("numBuckets" :> E))) @@
      ("$searchMeta" :> Tab(("index" :> E) @@
        ("highlight" :> Tab(("path" :> FN) @@
          ("maxCharsToExamine" :> E) @@
          ("maxNumPassages" :> E))) @@
        ("concurrent" :> E) @@
        ("count" :> Tab(("type" :> E) @@
          ("threshold" :> E))) @@
        ("searchAfter" :> R) @@
        ("searchBefore" :> R) @@
        ("scoreDetails" :> E) @@
        ("sort" :> FN) @@
        ("returnStoredSource" :> E) @@
        ("tracking" :> Tab(<< >>)) @@
        ("autocomplete" :> Tab(("query" :> R) @@
          ("path" :> FN) @@
          ("tokenOrder" :> E) @@
          ("fuzzy" :> E) @@
          ("score" :> E))) @@
        ("compound" :> Tab(("must" :> OA) @@
          ("mustNot" :> OA) @@
          ("should" :> OA) @@
          ("filter" :> R) @@
          ("score" :> E) @@
          ("minimumShouldMatch" :> E))) @@
        ("embeddedDocument" :> Tab(("path" :> FN) @@
          ("operator" :> OM) @@
          ("score" :> E))) @@
        ("equals" :> Tab(("path" :> FN) @@
          ("value" :> R) @@
          ("score" :> E))) @@
        ("exists" :> Tab(("path" :> FN) @@
          ("score" :> E))) @@
        ("facet" :> Tab(("operator" :> R) @@
          ("facets" :> OM))) @@
        ("geoShape" :> Tab(("path" :> FN) @@
          ("relation" :> E) @@
          ("geometry" :> Tab(("type" :> E) @@
            ("coordinates" :> R))) @@
          ("score" :> E))) @@
        ("geoWithin" :> Tab(("path" :> FN) @@
          ("box" :> Tab(("bottomLeft" :> Tab(("type" :> E) @@
              ("coordinates" :> R))) @@
            ("topRight" :> Tab(("type" :> E) @@
              ("coordinates" :> R))))) @@
          ("circle" :> Tab(("center" :> Tab(("type" :> E) @@
              ("coordinates" :> R))) @@
            ("radius" :> R))) @@
          ("geometry" :> Tab(("type" :> E) @@
            ("coordinates" :> R))) @@
          ("score" :> E))) @@
        ("in" :> Tab(("path" :> FN) @@
          ("score" :> E) @@
          ("value" :> R))) @@
        ("moreLikeThis" :> Tab(("like" :> R) @@
          ("score" :> E))) @@
        ("near" :> Tab(("path" :> FN) @@
          ("origin" :> R) @@
          ("pivot" :> R) @@
          ("score" :> E))) @@
        ("phrase" :> Tab(("query" :> R) @@
          ("path" :> FN) @@
          ("score" :> E) @@
          ("slop" :> E) @@
          ("synonyms" :> R))) @@
        ("queryString" :> Tab(("defaultPath" :> FN) @@
          ("query" :> R))) @@
        ("range" :> Tab(("path" :> FN) @@
          ("gte" :> R) @@
          ("gt" :> R) @@
          ("lte" :> R) @@
          ("lt" :> R) @@
          ("score" :> E))) @@
        ("regex" :> Tab(("query" :> R) @@
          ("path" :> FN) @@
          ("allowAnalyzedField" :> E) @@
          ("score" :> E))) @@
        ("span" :> Tab(("term" :> Tab(("path" :> FN) @@
            ("query" :> R))) @@
          ("contains" :> Tab(("spanToReturn" :> E) @@
            ("little" :> R) @@
            ("big" :> R) @@
            ("score" :> E))) @@
          ("first" :> Tab(("endPositionLte" :> R) @@
            ("operator" :> R) @@
            ("score" :> E))) @@
          ("near" :> Tab(("clauses" :> R) @@
            ("slop" :> R) @@
            ("inOrder" :> E) @@
            ("score" :> E))) @@
          ("or" :> Tab(("clauses" :> R) @@
            ("score" :> E))) @@
          ("subtract" :> Tab(("include" :> R) @@
            ("exclude" :> R) @@
            ("score" :> E))))) @@
        ("text" :> Tab(("query" :> R) @@
          ("path" :> FN) @@
          ("fuzzy" :> E) @@
          ("matchCriteria" :> E) @@
          ("score" :> E) @@
          ("synonyms" :> R))) @@
        ("wildcard" :> Tab(("query" :> R) @@
          ("path" :> FN) @@
          ("allowAnalyzedField" :> E) @@
          ("score" :> E))) @@
        ("numBuckets" :> E))) @@
      ("$vectorSearch" :> Tab(("exact" :> E) @@
        ("filter" :> R) @@
        ("index" :> E) @@
        ("limit" :> E) @@
        ("numCandidates" :> E) @@
        ("path" :> FN) @@
        ("queryVector" :> R))) @@
      ("$rankFusion" :> Tab(("input" :> Tab(("pipelines" :> P))) @@
        ("combination" :> FN) @@
        ("scoreDetails" :> R))))

TopLevelSearchOperators == {"$search","$searchMeta","$vectorSearch","$rankFusion"}
Vocabulary == {"$abs","$add","$addFields","$addToSet","$all","$and","$arrayElemAt","$arrayToObject","$binary","$bit","$bitsAllClear","$bitsAllSet","$bitsAnyClear","$bitsAnySet","$bucket","$bucketAuto","$ceil","$changeStream","$changeStreamSplitLargeEvent","$cmp","$collStats","$concatArrays","$cond","$count","$currentDate","$currentOp","$date","$densify","$divide","$documents","$each","$elemMatch","$eq","$exists","$exp","$expr","$facet","$fill","$filter","$firstN","$floor","$geoIntersects","$geoNear","$geoWithin","$graphLookup","$group","$gt","$gte","$in","$inc","$indexOfArray","$indexStats","$isArray","$jsonSchema","$lastN","$limit","$listLocalSessions","$listSampledQueries","$listSearchIndexes","$listSessions","$ln","$log","$log10","$lookup","$lt","$lte","$map","$match","$max","$maxN","$merge","$meta","$min","$minN","$mod","$mul","$multiply","$natural","$ne","$near","$nearSphere","$nin","$nor","$not","$objectToArray","$oid","$or","$out","$planCacheStats","$pop","$position","$pow","$project","$pull","$pullAll","$push","$querySettings","$queryStats","$rand","$range","$rankFusion","$redact","$reduce","$regex","$rename","$replaceRoot","$replaceWith","$reverseArray","$round","$sample","$search","$searchMeta","$set","$setOnInsert","$setWindowFields","$shardedDataDistribution","$size","$skip","$slice","$sort","$sortArray","$sortByCount","$sqrt","$subtract","$text","$trunc","$type","$unionWith","$unset","$unwind","$vectorSearch","$where","$zip","allChangesForCluster","allUsers","allowAnalyzedField","as","autocomplete","base64","big","bottomLeft","boundaries","bounds","box","buckets","center","circle","clauses","coll","combination","compound","concurrent","connectFromField","connectToField","contains","coordinates","count","db","default","defaultPath","depthField","distanceField","distanceMultiplier","else","embeddedDocument","endPositionLte","equals","exact","exclude","exists","facet","facets","field","filter","first","foreignField","from","fullDocument","fullDocumentBeforeChange","fuzzy","geoShape","geoWithin","geometry","granularity","groupBy","gt","gte","highlight","id","idleConnections","idleCursors","idleSessions","if","in","inOrder","include","includeLocs","index","input","into","key","latencyStats","let","like","limit","little","localField","localOps","lt","lte","matchCriteria","maxCharsToExamine","maxDepth","maxDistance","maxNumPassages","minDistance","minimumShouldMatch","moreLikeThis","must","mustNot","name","namespace","near","newRoot","numBuckets","numCandidates","on","operator","or","origin","output","partitionBy","partitionByFields","path","phrase","pipeline","pipelines","pivot","query","queryExecStats","queryString","queryVector","radius","range","regex","relation","restrictSearchWithMatch","resumeAfter","returnStoredSource","score","scoreDetails","searchAfter","searchBefore","should","showExpandedEvents","slop","sort","sortBy","span","spanToReturn","spherical","startAfter","startAtOperationTime","startWith","step","storageStats","subType","subtract","synonyms","term","text","then","threshold","timeseries","tokenOrder","topRight","tracking","type","units","users","value","whenMatched","whenNotMatched","wildcard","window"}
====
