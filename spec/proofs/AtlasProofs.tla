---------------------------- MODULE AtlasProofs -----------------------------
(***************************************************************************)
(* Unbounded safety of Atlas.tla, checked by the TLA+ proof system (tlapm). *)
(* TLC decides NoTempAtExit for 1..MaxHosts hosts; the proof below shows   *)
(* that the design satisfies it for EVERY number of hosts, every server    *)
(* behaviour and every fault position: TempInv is inductive.               *)
(***************************************************************************)
EXTENDS Atlas, TLAPS, SequenceTheorems

TypeOK ==
  /\ n \in Nat
  /\ auth \in AuthModes
  /\ cli \in BOOLEAN /\ keyOk \in BOOLEAN
  /\ fault \in [at : Nat, kind : STRING]
  /\ pc \in STRING
  /\ cur \in Nat
  /\ tmp \subseteq Nat
  /\ reg \in Seq(Nat)

\* what the temp directory may hold at each control point
TempInv ==
  /\ TypeOK
  /\ tmp \subseteq Elems(reg) \cup (IF pc = "copy" THEN {cur} ELSE {})
  /\ pc \in {"done", "keyfail", "crash"} => tmp = {}
  /\ auth = "digest_bare" => pc \in {"send", "crash", "done", "keyfail"} /\ tmp = {}

LEMMA RangeAppend ==
  ASSUME NEW S, NEW s \in Seq(S), NEW x \in S
  PROVE  Elems(Append(s, x)) = Elems(s) \cup {x}
<1>1. Len(Append(s, x)) = Len(s) + 1 /\ Append(s, x) \in Seq(S) BY AppendProperties
<1>2. \A i \in 1..Len(s) : Append(s, x)[i] = s[i] BY AppendProperties
<1>3. Append(s, x)[Len(s) + 1] = x BY AppendProperties
<1>4. Len(s) \in Nat BY LenProperties
<1>5. 1..(Len(s) + 1) = 1..Len(s) \cup {Len(s) + 1} BY <1>4
<1> QED BY <1>1, <1>2, <1>3, <1>4, <1>5 DEF Elems

THEOREM InitTemp == AtlasInit /\ n \in Nat /\ auth \in AuthModes /\ cli \in BOOLEAN /\ keyOk \in BOOLEAN
                    /\ fault \in [at : Nat, kind : STRING] => TempInv
BY DEF AtlasInit, TempInv, TypeOK, Range

THEOREM StepTemp == TempInv /\ [AtlasNext]_vars => TempInv'
<1> SUFFICES ASSUME TempInv, [AtlasNext]_vars PROVE TempInv' OBVIOUS
<1> USE DEF TempInv, TypeOK, envVars, FaultHere, Log
<1>1. CASE KeyFail BY <1>1 DEF KeyFail
<1>2. CASE SendUnauth BY <1>2 DEF SendUnauth, AuthModes
<1>3. CASE ParserCrash BY <1>3 DEF ParserCrash
<1>4. CASE SendAuth BY <1>4 DEF SendAuth
<1>5. CASE TransportRetry BY <1>5 DEF TransportRetry
<1>6. CASE Response BY <1>6 DEF Response
<1>7. CASE CopyBody
  <2>1. CASE FaultHere({"cut"}) BY <1>7, <2>1 DEF CopyBody
  <2>2. CASE ~FaultHere({"cut"})
    <3>1. reg' = Append(reg, cur) /\ tmp' = tmp /\ pc' \in {"send", "downloaded"} /\ pc = "copy" /\ cur' \in Nat BY <1>7, <2>2 DEF CopyBody
    <3>2. Elems(reg') = Elems(reg) \cup {cur} BY <3>1, RangeAppend
    <3>3. reg' \in Seq(Nat) BY <3>1, AppendProperties
    <3> QED BY <1>7, <2>2, <3>1, <3>2, <3>3 DEF CopyBody
  <2> QED BY <2>1, <2>2
<1>8. CASE DownloadFail
  <2>1. tmp \subseteq Elems(reg) /\ tmp' = tmp \ Elems(reg) /\ reg' = << >> /\ pc' = "done" BY <1>8 DEF DownloadFail
  <2>2. tmp' = {} BY <2>1
  <2>3. << >> \in Seq(Nat) BY EmptySeq
  <2> QED BY <1>8, <2>1, <2>2, <2>3 DEF DownloadFail
<1>9. CASE Downloaded
  <2>1. tmp \subseteq Elems(reg) BY <1>9 DEF Downloaded
  <2>2. tmp \ Elems(reg) = {} BY <2>1
  <2> QED BY <1>9, <2>1, <2>2 DEF Downloaded
<1>10. CASE CreateOut BY <1>10 DEF CreateOut
<1>11. CASE RedactFile BY <1>11 DEF RedactFile
<1>12. CASE CleanupFail
  <2>1. tmp \subseteq Elems(reg) BY <1>12 DEF CleanupFail
  <2>2. tmp \ Elems(reg) = {} BY <2>1
  <2> QED BY <1>12, <2>1, <2>2 DEF CleanupFail
<1>13. CASE CleanupOk
  <2>1. tmp \subseteq Elems(reg) BY <1>13 DEF CleanupOk
  <2>2. tmp \ Elems(reg) = {} BY <2>1
  <2> QED BY <1>13, <2>1, <2>2 DEF CleanupOk
<1>14. CASE UNCHANGED vars BY <1>14 DEF vars
<1> QED BY <1>1, <1>2, <1>3, <1>4, <1>5, <1>6, <1>7, <1>8, <1>9, <1>10, <1>11, <1>12, <1>13, <1>14 DEF AtlasNext

THEOREM TempInvImpliesNoTempAtExit == TempInv => NoTempAtExit
BY DEF TempInv, NoTempAtExit, Done
=============================================================================
