--------------------------- MODULE KeyFileProofs ----------------------------
(***************************************************************************)
(* Unbounded safety of KeyFile.tla, checked by the TLA+ proof system.      *)
(* TLC decides the invariants for MaxRuns consecutive runs; the proofs     *)
(* below show that they hold after ANY number of runs, whatever the        *)
(* environment puts at the key path between runs: KInv is inductive and    *)
(* implies KeyBeforeCiphertext, UnusableRefused and SuccessHasKey; the     *)
(* action properties NeverOverwrite and CreateOnce hold of every step.     *)
(***************************************************************************)
EXTENDS KeyFile, TLAPS, SequenceTheorems

PCs == {"start", "outCreated", "absent", "exists", "generated", "ready", "exited"}

TypeOK ==
  /\ path \in [kind : Kinds, key : Nat, mode : STRING]
  /\ out \in Seq(Nat)
  /\ inUse \in Nat /\ fresh \in Nat /\ run \in Nat /\ exit \in Nat /\ lines \in Nat
  /\ pc \in PCs
  /\ input \in Inputs

KInv ==
  /\ TypeOK
  /\ lines = LinesOf(input)
  /\ pc \in {"outCreated", "absent", "exists", "generated"} => out = << >>
  /\ pc = "ready" => path.kind \in ValidKinds /\ path.key = inUse
  /\ pc \in {"ready", "exited"} => \A i \in 1..Len(out) : path.kind \in ValidKinds /\ out[i] = path.key
  /\ pc # "start" /\ input = "abort" => Len(out) <= 2
  /\ pc = "exited" /\ path.kind \notin ValidKinds => exit = 1 /\ out = << >>
  /\ pc = "exited" /\ exit = 0 => path.kind \in ValidKinds /\ path.key = inUse /\ Len(out) = lines /\ input # "abort"

THEOREM InitK == ASSUME NEW k \in Kinds, KeyFileInit(k) PROVE KInv
<1> USE DEF KeyFileInit, KInv, TypeOK, PathRec, NoKey, PCs, Kinds, ValidKinds, UnusableKinds, MissingKinds, Inputs, LinesOf
<1>1. << >> \in Seq(Nat) /\ Len(<< >>) = 0 BY EmptySeq
<1> QED BY <1>1

THEOREM StepK == KInv /\ [KeyFileNext]_vars => KInv'
<1> SUFFICES ASSUME KInv, [KeyFileNext]_vars PROVE KInv' OBVIOUS
<1> USE DEF KInv, TypeOK, PCs, PathRec, NoKey, Inputs, LinesOf
<1>0. Len(out) \in Nat BY LenProperties
<1>1. CASE CreateOut
  <2>1. << >> \in Seq(Nat) /\ Len(<< >>) = 0 BY EmptySeq
  <2> QED BY <1>1, <2>1 DEF CreateOut
<1>2. CASE StatKey BY <1>2 DEF StatKey, Exists
<1>3. CASE Generate BY <1>3 DEF Generate
<1>4. CASE WriteKey
  <2>1. CASE path.kind = "absent"
    <3>1. path' = [kind |-> "valid", key |-> inUse, mode |-> "600"] /\ pc' = "ready" /\ out' = out /\ out = << >> /\ inUse' = inUse BY <1>4, <2>1 DEF WriteKey
    <3>2. path' \in [kind : Kinds, key : Nat, mode : STRING] BY <3>1 DEF Kinds, ValidKinds
    <3>3. path'.kind \in ValidKinds /\ path'.key = inUse' BY <3>1 DEF ValidKinds
    <3> QED BY <1>4, <2>1, <3>1, <3>2, <3>3 DEF WriteKey
  <2>2. CASE path.kind # "absent" BY <1>4, <2>2 DEF WriteKey
  <2> QED BY <2>1, <2>2
<1>5. CASE ReadKey BY <1>5 DEF ReadKey
<1>6. CASE WriteCipherLine
  <2>1. out' = Append(out, inUse) /\ pc = "ready" /\ pc' = "ready" /\ path' = path /\ inUse' = inUse /\ Len(out) < lines
        /\ ~(input = "abort" /\ Len(out) = 2) /\ input' = input /\ lines' = lines /\ exit' = exit
        BY <1>6 DEF WriteCipherLine
  <2>2. out' \in Seq(Nat) /\ Len(out') = Len(out) + 1 /\ \A i \in 1..Len(out) : out'[i] = out[i] BY <2>1, AppendProperties
  <2>3. out'[Len(out) + 1] = inUse BY <2>1, AppendProperties
  <2>4. \A i \in 1..Len(out') : path'.kind \in ValidKinds /\ out'[i] = path'.key BY <2>1, <2>2, <2>3, <1>0
  <2>5. pc' # "start" /\ input' = "abort" => Len(out') <= 2 BY <2>1, <2>2, <1>0
  <2> QED BY <1>6, <2>1, <2>2, <2>4, <2>5 DEF WriteCipherLine
<1>7. CASE ExitOk BY <1>7 DEF ExitOk
<1>8. CASE AbortMidRun BY <1>8 DEF AbortMidRun
<1>9. CASE NextRun
  <2>1. pc' = "start" /\ out' = out /\ input' \in Inputs /\ lines' = LinesOf(input') /\ inUse' = NoKey /\ exit' = 0 /\ run' = run + 1 BY <1>9 DEF NextRun
  <2>2. path' \in [kind : Kinds, key : Nat, mode : STRING] /\ fresh' \in Nat BY <1>9 DEF NextRun, Kinds, ValidKinds, UnusableKinds, MissingKinds
  <2> QED BY <1>9, <2>1, <2>2 DEF NextRun
<1>10. CASE UNCHANGED vars BY <1>10 DEF vars
<1> QED BY <1>1, <1>2, <1>3, <1>4, <1>5, <1>6, <1>7, <1>8, <1>9, <1>10 DEF KeyFileNext, ProgramStep

THEOREM KInvImplies == KInv => KeyBeforeCiphertext /\ UnusableRefused /\ SuccessHasKey
<1> SUFFICES ASSUME KInv PROVE KeyBeforeCiphertext /\ UnusableRefused /\ SuccessHasKey OBVIOUS
<1> USE DEF KInv, TypeOK, PCs
<1>1. KeyBeforeCiphertext BY DEF KeyBeforeCiphertext
<1>2. UnusableRefused BY DEF UnusableRefused, ValidKinds, UnusableKinds
<1>3. SuccessHasKey BY DEF SuccessHasKey
<1> QED BY <1>1, <1>2, <1>3

\* the action properties, step by step (NeverOverwrite and CreateOnce are [][...]_vars over exactly these formulas)
THEOREM NeverOverwriteStep == ProgramStep /\ path.kind \notin MissingKinds => path' = path
BY DEF ProgramStep, CreateOut, StatKey, Generate, WriteKey, ReadKey, WriteCipherLine, ExitOk, AbortMidRun, MissingKinds

THEOREM CreateOnceStep == ProgramStep /\ path' # path => path.kind = "absent" /\ path'.kind = "valid" /\ path'.mode = "600" /\ path'.key = inUse
BY DEF ProgramStep, CreateOut, StatKey, Generate, WriteKey, ReadKey, WriteCipherLine, ExitOk, AbortMidRun, PathRec
=============================================================================
