----------------------------- MODULE RedactorEW ------------------------------
(***************************************************************************)
(* Envelope-walk generator: every line class (component x message x which  *)
(* attribute carries the command document x namespace relation x damaged   *)
(* envelopes) x every zone slot, with shallow content.  This is the space  *)
(* in which a dropped dispatch key, a command document that is no longer   *)
(* visited, a changed line gate or an early return shows.                  *)
(***************************************************************************)
EXTENDS RedactorEnv

VARIABLES env, slot, content, phase

Comps   == {"COMMAND", "QUERY", "WRITE", "NETWORK", "-"}
Msgs    == {"Slow query", "Connection accepted"}
Holders == {"command", "cmd", "originatingCommand", "all"} \cup BadHolders
NsRels  == {"nseq", "nsprefix", "nsother", "none", "nsnum"}
AttrKinds == {"obj", "missing", "null", "str", "arr"}

Slots == {"filter", "query", "sort", "q", "u", "update", "updatePipe", "updates", "deletes", "documents", "documentsNoInsert",
          "pipeline", "uPipe", "other"}

\* shallow zone content: a field with a literal, an operator over a literal, an array of literals, a nested document
Contents == {"field", "op", "arr", "nested", "ref", "numbool"}
ContentTree(c) ==
  CASE c = "field"  -> Obj(<< <<"uf1", Leaf("plain", "user")>>, <<"uf2", Leaf("email", "user")>> >>)
    [] c = "op"     -> Obj(<< <<"uf1", Obj(<< <<"$gt", Leaf("plain", "user")>> >>)>> >>)
    [] c = "arr"    -> Obj(<< <<"uf1", Obj(<< <<"$in", Arr(<<Leaf("plain", "user"), Leaf("plain", "user")>>)>> >>)>> >>)
    [] c = "nested" -> Obj(<< <<"uf1", Obj(<< <<"uf2", Arr(<< Obj(<< <<"uf3", Leaf("plain", "user")>> >>) >>)>> >>)>> >>)
    [] c = "ref"    -> Obj(<< <<"uf1", Leaf("dollar", "ref")>>, <<"uf2", Leaf("plain", "user")>> >>)
    [] c = "numbool" -> Obj(<< <<"uf1", Leaf("num", "user")>>, <<"uf2", Leaf("bool", "user")>>, <<"uf3", Leaf("null", "user")>> >>)

SetStage(t) == Obj(<< <<"$set", t>> >>)
MatchStage(t) == Obj(<< <<"$match", t>> >>)

CmdFor(s, t) ==
  CASE s \in {"filter", "sort"}  -> Cmd("find", s, t)
    [] s = "query"     -> Cmd("count", "query", t)
    [] s = "q"         -> Cmd("delete", "q", t)
    [] s = "u"         -> Cmd("update", "u", t)
    [] s = "uPipe"     -> Cmd("update", "u", Arr(<<SetStage(t)>>))
    [] s = "update"    -> Cmd("findAndModify", "update", Obj(<< <<"$set", t>> >>))
    [] s = "updatePipe" -> Cmd("findAndModify", "update", Arr(<<SetStage(t)>>))
    [] s = "updates"   -> Cmd("update", "updates", Arr(<< Obj(<< <<"q", t>>, <<"u", Obj(<< <<"$set", t>> >>)>>, <<"multi", Bool("free")>> >>),
                                                          Obj(<< <<"q", t>>, <<"u", Arr(<<SetStage(t)>>)>> >>) >>))
    [] s = "deletes"   -> Cmd("delete", "deletes", Arr(<< Obj(<< <<"q", t>>, <<"limit", Num("free")>> >>) >>))
    [] s = "documents" -> Cmd("insert", "documents", Arr(<<t, t>>))
    [] s = "documentsNoInsert" -> Cmd("find", "documents", Arr(<<t>>))
    [] s = "pipeline"  -> Cmd("aggregate", "pipeline", Arr(<<MatchStage(t), SetStage(t)>>))
    [] s = "other"     -> Cmd("find", "projection", t)

CaseLine(ak) ==
  LET doc == CmdFor(slot, ContentTree(content)) IN
  CASE ak = "obj"     -> Line(env, doc)
    [] ak = "missing" -> LineWith(env, Null("env"), FALSE)
    [] ak = "null"    -> LineWith(env, Null("env"), TRUE)
    [] ak = "str"     -> LineWith(env, Str("envstr", "env"), TRUE)
    [] ak = "arr"     -> LineWith(env, Arr(<<doc>>), TRUE)

Init == /\ env \in [comp : Comps, msg : Msgs, holder : {"command"}, nsrel : {"nseq"}, ak : {"obj"}]
        /\ slot = "filter" /\ content = "field" /\ phase = 0
Next == \/ /\ phase = 0
           /\ \E h \in Holders, n \in NsRels :
                env' = [env EXCEPT !.holder = h, !.nsrel = n]
           /\ phase' = 1 /\ UNCHANGED <<slot, content>>
        \/ /\ phase = 1
           /\ slot' \in Slots /\ content' \in Contents
           /\ phase' = 2 /\ UNCHANGED env
        \/ /\ phase = 0
           /\ \E a \in AttrKinds \ {"obj"} : env' = [env EXCEPT !.ak = a]
           /\ phase' = 2 /\ UNCHANGED <<slot, content>>

EmitInv == phase = 2 => EmitCase("ew", CaseLine(env.ak))
IdemInv == phase = 2 => IdempotentAll(CaseLine(env.ak))
=============================================================================
