----------------------------- MODULE RedactorEW ------------------------------
(***************************************************************************)
(* Envelope-walk generator: every line class (component x message x which  *)
(* attribute carries the command document x namespace relation x damaged   *)
(* envelopes) x every zone slot, with shallow content.  This is the space  *)
(* in which a dropped dispatch key, a command document that is no longer   *)
(* visited, a changed line gate or an early return shows.                  *)
(***************************************************************************)
EXTENDS RedactorEnv

VARIABLES env, slot, content, phase

Comps   == {"COMMAND", "QUERY", "WRITE", "NETWORK", "-"}
Msgs    == {"Slow query", "Connection accepted"}
Holders == {"command", "cmd", "originatingCommand", "all"} \cup BadHolders
NsRels  == {"nseq", "nsprefix", "nsother", "none", "nsnum"}
AttrKinds == {"obj", "missing", "null", "str", "arr"}

\* C07 / C03: zone slots holding the wrong kind of value, and statement / document / stage arrays whose items are bare scalars,
\* null or arrays instead of documents (not derivable from the grammar: label "any")
DamagedSlots == {"updatesItems", "deletesItems", "documentsItems", "pipelineItems", "uPipeItems", "filterStr", "filterArr", "sortNum",
                 "pipelineObj", "pipelineStr", "updatesObj", "documentsStr", "qNull", "uStr", "explainWrap", "bulkWrite"}
RECURSIVE AnyLab(_)
AnyLab(v) == CASE v.t = "obj" -> Obj([i \in 1..Len(v.kv) |-> <<v.kv[i][1], AnyLab(v.kv[i][2])>>])
               [] v.t = "arr" -> Arr([i \in 1..Len(v.it) |-> AnyLab(v.it[i])])
               [] OTHER       -> [v EXCEPT !.lab = IF @ = "ref" THEN "ref" ELSE "any"]
Items(t) == Arr(<<Leaf("plain", "any"), Leaf("num", "any"), Null("any"), Arr(<<Leaf("num", "any"), Leaf("plain", "any")>>), Leaf("bool", "any"), t>>)

Slots == {"filter", "query", "sort", "q", "u", "update", "updatePipe", "updates", "deletes", "documents", "documentsNoInsert",
          "pipeline", "uPipe", "other", "arrayFilters", "writeStmt", "adminCmd"} \cup (IF EWDamaged THEN DamagedSlots ELSE {})

\* shallow zone content: a field with a literal, an operator over a literal, an array of literals, a nested document
Contents == {"field", "op", "arr", "nested", "ref", "numbool"}
ContentTree(c) ==
  CASE c = "field"  -> Obj(<< <<"uf1", Leaf("plain", "user")>>, <<"uf2", Leaf("email", "user")>> >>)
    [] c = "op"     -> Obj(<< <<"uf1", Obj(<< <<"$gt", Leaf("plain", "user")>> >>)>> >>)
    [] c = "arr"    -> Obj(<< <<"uf1", Obj(<< <<"$in", Arr(<<Leaf("plain", "user"), Leaf("plain", "user")>>)>> >>)>> >>)
    [] c = "nested" -> Obj(<< <<"uf1", Obj(<< <<"uf2", Arr(<< Obj(<< <<"uf3", Leaf("plain", "user")>> >>) >>)>> >>)>> >>)
    [] c = "ref"    -> Obj(<< <<"uf1", Leaf("dollar", "ref")>>, <<"uf2", Leaf("plain", "user")>> >>)
    [] c = "numbool" -> Obj(<< <<"uf1", Leaf("num", "user")>>, <<"uf2", Leaf("bool", "user")>>, <<"uf3", Leaf("null", "user")>> >>)

SetStage(t) == Obj(<< <<"$set", t>> >>)
MatchStage(t) == Obj(<< <<"$match", t>> >>)

CmdFor(s, t) ==
  CASE s \in {"filter", "sort"}  -> Cmd("find", s, t)
    [] s = "query"     -> Cmd("count", "query", t)
    [] s = "q"         -> Cmd("delete", "q", t)
    [] s = "u"         -> Cmd("update", "u", t)
    [] s = "uPipe"     -> Cmd("update", "u", Arr(<<SetStage(t)>>))
    [] s = "update"    -> Cmd("findAndModify", "update", Obj(<< <<"$set", t>> >>))
    [] s = "updatePipe" -> Cmd("findAndModify", "update", Arr(<<SetStage(t)>>))
    [] s = "updates"   -> Cmd("update", "updates", Arr(<< Obj(<< <<"q", t>>, <<"u", Obj(<< <<"$set", t>> >>)>>, <<"multi", Bool("free")>> >>),
                                                          Obj(<< <<"q", t>>, <<"u", Arr(<<SetStage(t)>>)>> >>) >>))
    [] s = "deletes"   -> Cmd("delete", "deletes", Arr(<< Obj(<< <<"q", t>>, <<"limit", Num("free")>> >>) >>))
    [] s = "documents" -> Cmd("insert", "documents", Arr(<<t, t>>))
    [] s = "documentsNoInsert" -> Cmd("find", "documents", Arr(<<t>>))
    [] s = "pipeline"  -> Cmd("aggregate", "pipeline", Arr(<<MatchStage(t), SetStage(t)>>))
    [] s = "other"     -> Cmd("find", "projection", t)
    \* a command whose first field holds an argument that is no collection (getLog: "global", setFeatureCompatibilityVersion: "7.0" ...)
    [] s = "adminCmd"  -> Obj(<< <<"getLog", Str("envstr", "env")>>, <<"projection", t>>, <<"$db", NsName>> >>)
    \* the update specification spelled at command level: findAndModify with arrayFilters, and the WRITE log line of one
    \* update statement ({q, u, c, arrayFilters, multi, upsert} - no verb key at all)
    [] s = "arrayFilters" -> Obj(<< <<"findAndModify", NsName>>, <<"query", t>>, <<"update", Obj(<< <<"$set", t>> >>)>>,
                                    <<"arrayFilters", Arr(<<t, t>>)>>, <<"$db", NsName>> >>)
    [] s = "writeStmt" -> Obj(<< <<"q", t>>, <<"u", Arr(<<SetStage(t)>>)>>, <<"c", t>>, <<"arrayFilters", Arr(<<t>>)>>,
                                 <<"multi", Bool("free")>>, <<"upsert", Bool("free")>> >>)
    [] s = "updatesItems"   -> Cmd("update", "updates", Items(t))
    [] s = "deletesItems"   -> Cmd("delete", "deletes", Items(t))
    [] s = "documentsItems" -> Cmd("insert", "documents", Items(t))
    [] s = "pipelineItems"  -> Cmd("aggregate", "pipeline", Items(MatchStage(t)))
    [] s = "uPipeItems"     -> Cmd("update", "u", Items(SetStage(t)))
    [] s = "filterStr"      -> Cmd("find", "filter", Leaf("plain", "any"))
    [] s = "filterArr"      -> Cmd("find", "filter", Arr(<<t>>))
    [] s = "sortNum"        -> Cmd("find", "sort", Leaf("num", "any"))
    [] s = "pipelineObj"    -> Cmd("aggregate", "pipeline", MatchStage(t))
    [] s = "pipelineStr"    -> Cmd("aggregate", "pipeline", Leaf("plain", "any"))
    [] s = "updatesObj"     -> Cmd("update", "updates", Obj(<< <<"q", t>> >>))
    [] s = "documentsStr"   -> Cmd("insert", "documents", Leaf("plain", "any"))
    [] s = "qNull"          -> Cmd("delete", "q", Null("any"))
    [] s = "uStr"           -> Cmd("update", "u", Leaf("plain", "any"))
    \* the bulkWrite command of newer servers (ops refer to nsInfo entries by position): not claimed by the tool - but whatever it does with
    \* it, odd positions (negative, fractional, a string) must not hurt
    [] s = "bulkWrite"      -> Obj(<< <<"bulkWrite", Num("env")>>,
                                      <<"ops", Arr(<< Obj(<< <<"insert", Num("any")>>, <<"document", t>> >>),
                                                      Obj(<< <<"update", Num("any")>>, <<"filter", t>>, <<"updateMods", Obj(<< <<"$set", t>> >>)>> >>),
                                                      Obj(<< <<"delete", Leaf("plain", "any")>>, <<"filter", t>> >>) >>)>>,
                                      <<"nsInfo", Arr(<< Obj(<< <<"ns", Str("envstr", "env")>> >>) >>)>>, <<"$db", NsName>> >>)
    \* explain wraps the whole command; the tool does not claim it - whatever it does, nothing around the zones may change
    [] s = "explainWrap"    -> Obj(<< <<"explain", Obj(<< <<"find", Str("plain", "any")>>, <<"filter", t>>, <<"limit", Num("any")>> >>)>>,
                                      <<"verbosity", Lit("queryPlanner")>>, <<"maxTimeMS", Num("env")>>, <<"$db", NsName>> >>)

CaseLine(ak) ==
  LET doc == CmdFor(slot, IF slot \in DamagedSlots THEN AnyLab(ContentTree(content)) ELSE ContentTree(content)) IN
  CASE ak = "obj"     -> Line(env, doc)
    [] ak = "missing" -> LineWith(env, Null("env"), FALSE)
    [] ak = "null"    -> LineWith(env, Null("env"), TRUE)
    [] ak = "str"     -> LineWith(env, Str("envstr", "env"), TRUE)
    [] ak = "arr"     -> LineWith(env, Arr(<<doc>>), TRUE)

Init == /\ env \in [comp : Comps, msg : Msgs, holder : {"command"}, nsrel : {"nseq"}, ak : {"obj"}]
        /\ slot = "filter" /\ content = "field" /\ phase = 0
Next == \/ /\ phase = 0
           /\ \E h \in Holders, n \in NsRels :
                env' = [env EXCEPT !.holder = h, !.nsrel = n]
           /\ phase' = 1 /\ UNCHANGED <<slot, content>>
        \/ /\ phase = 1
           /\ slot' \in Slots /\ content' \in Contents
           /\ phase' = 2 /\ UNCHANGED env
        \/ /\ phase = 0
           /\ \E a \in AttrKinds \ {"obj"} : env' = [env EXCEPT !.ak = a]
           /\ phase' = 2 /\ UNCHANGED <<slot, content>>

EmitInv == phase = 2 => EmitCase("ew", CaseLine(env.ak))
IdemInv == phase = 2 => IdempotentAll(CaseLine(env.ak))
=============================================================================
